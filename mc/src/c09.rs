//! C09 — constant folding preserves meaning (and shape where an operand is symbolic), is idempotent, total.

use crate::infra::*;
use crate::u256::{binop, boundary_set, U};
use crate::util::kw;
use serde_json::{json, Map, Value};
use storage_layout_extractor as sle;
use sle::vm::value::{Provenance, RuntimeBoxedVal, RSV, RSVD};

#[derive(Clone, Copy, Debug, PartialEq, Eq, Hash)]
pub enum Op {
    Add,
    Multiply,
    Subtract,
    Divide,
    SignedDivide,
    Modulo,
    SignedModulo,
    Exp,
    LessThan,
    GreaterThan,
    SignedLessThan,
    SignedGreaterThan,
    Equals,
    And,
    Or,
    Xor,
    LeftShift,
    RightShift,
    ArithmeticRightShift,
    // unary
    IsZero,
    Not,
}
pub const BIN: [Op; 19] = [
    Op::Add,
    Op::Multiply,
    Op::Subtract,
    Op::Divide,
    Op::SignedDivide,
    Op::Modulo,
    Op::SignedModulo,
    Op::Exp,
    Op::LessThan,
    Op::GreaterThan,
    Op::SignedLessThan,
    Op::SignedGreaterThan,
    Op::Equals,
    Op::And,
    Op::Or,
    Op::Xor,
    Op::LeftShift,
    Op::RightShift,
    Op::ArithmeticRightShift,
];
pub const UN: [Op; 2] = [Op::IsZero, Op::Not];

impl Op {
    fn evm(self) -> &'static str {
        match self {
            Op::Add => "ADD",
            Op::Multiply => "MUL",
            Op::Subtract => "SUB",
            Op::Divide => "DIV",
            Op::SignedDivide => "SDIV",
            Op::Modulo => "MOD",
            Op::SignedModulo => "SMOD",
            Op::Exp => "EXP",
            Op::LessThan => "LT",
            Op::GreaterThan => "GT",
            Op::SignedLessThan => "SLT",
            Op::SignedGreaterThan => "SGT",
            Op::Equals => "EQ",
            Op::And => "AND",
            Op::Or => "OR",
            Op::Xor => "XOR",
            Op::LeftShift => "SHL",
            Op::RightShift => "SHR",
            Op::ArithmeticRightShift => "SAR",
            Op::IsZero => "ISZERO",
            Op::Not => "NOT",
        }
    }
}

#[derive(Clone, Copy, Debug, PartialEq, Eq, Hash)]
pub enum WrapKind {
    Sha3,
    SignExtendSize,
    ConcatFirst,
    SLoadKey,
    StorageWriteValue,
}
const WRAPS: [WrapKind; 5] = [
    WrapKind::Sha3,
    WrapKind::SignExtendSize,
    WrapKind::ConcatFirst,
    WrapKind::SLoadKey,
    WrapKind::StorageWriteValue,
];

/// The harness's own expression type; the oracle works on this, never on the subject's tree.
#[derive(Clone, Debug, PartialEq, Eq, Hash)]
pub enum T {
    K(U),
    /// opaque leaf: 0 = msg.value, 1 = msg.sender
    Leaf(u8),
    Un(Op, Box<T>),
    /// first field, second field of the node (left/right, dividend/divisor, value/exponent, shift/value)
    Bin(Op, Box<T>, Box<T>),
    Wrap(WrapKind, Box<T>),
}

fn syn(d: RSVD) -> RuntimeBoxedVal {
    RSV::new_synthetic(0, d)
}

pub fn to_rsv(t: &T) -> RuntimeBoxedVal {
    match t {
        T::K(u) => RSV::new_known_value(0, kw(*u), Provenance::Synthetic, None),
        T::Leaf(0) => syn(RSVD::CallValue),
        T::Leaf(_) => syn(RSVD::Caller),
        T::Un(Op::IsZero, a) => syn(RSVD::IsZero { number: to_rsv(a) }),
        T::Un(_, a) => syn(RSVD::Not { value: to_rsv(a) }),
        T::Bin(op, a, b) => {
            let (a, b) = (to_rsv(a), to_rsv(b));
            syn(match op {
                Op::Add => RSVD::Add { left: a, right: b },
                Op::Multiply => RSVD::Multiply { left: a, right: b },
                Op::Subtract => RSVD::Subtract { left: a, right: b },
                Op::Divide => RSVD::Divide { dividend: a, divisor: b },
                Op::SignedDivide => RSVD::SignedDivide { dividend: a, divisor: b },
                Op::Modulo => RSVD::Modulo { dividend: a, divisor: b },
                Op::SignedModulo => RSVD::SignedModulo { dividend: a, divisor: b },
                Op::Exp => RSVD::Exp { value: a, exponent: b },
                Op::LessThan => RSVD::LessThan { left: a, right: b },
                Op::GreaterThan => RSVD::GreaterThan { left: a, right: b },
                Op::SignedLessThan => RSVD::SignedLessThan { left: a, right: b },
                Op::SignedGreaterThan => RSVD::SignedGreaterThan { left: a, right: b },
                Op::Equals => RSVD::Equals { left: a, right: b },
                Op::And => RSVD::And { left: a, right: b },
                Op::Or => RSVD::Or { left: a, right: b },
                Op::Xor => RSVD::Xor { left: a, right: b },
                Op::LeftShift => RSVD::LeftShift { shift: a, value: b },
                Op::RightShift => RSVD::RightShift { shift: a, value: b },
                Op::ArithmeticRightShift => RSVD::ArithmeticRightShift { shift: a, value: b },
                Op::IsZero | Op::Not => unreachable!(),
            })
        }
        T::Wrap(k, a) => {
            let a = to_rsv(a);
            let x = syn(RSVD::Caller);
            syn(match k {
                WrapKind::Sha3 => RSVD::Sha3 { data: a },
                WrapKind::SignExtendSize => RSVD::SignExtend { size: a, value: x },
                WrapKind::ConcatFirst => RSVD::Concat { values: vec![a, x] },
                WrapKind::SLoadKey => RSVD::SLoad { key: a, value: x },
                WrapKind::StorageWriteValue => RSVD::StorageWrite { key: x, value: a },
            })
        }
    }
}

pub fn ref_fold(t: &T) -> T {
    match t {
        T::K(_) | T::Leaf(_) => t.clone(),
        T::Un(op, a) => {
            let a = ref_fold(a);
            if let T::K(x) = a {
                T::K(match op {
                    Op::IsZero => U::evm_iszero(x),
                    _ => x.not(),
                })
            } else {
                T::Un(*op, Box::new(a))
            }
        }
        T::Bin(op, a, b) => {
            let (a, b) = (ref_fold(a), ref_fold(b));
            if let (T::K(x), T::K(y)) = (&a, &b) {
                T::K(binop(op.evm(), *x, *y).unwrap())
            } else {
                T::Bin(*op, Box::new(a), Box::new(b))
            }
        }
        T::Wrap(k, a) => T::Wrap(*k, Box::new(ref_fold(a))),
    }
}

fn node_count(v: &RuntimeBoxedVal) -> usize {
    1 + v.children().iter().map(node_count).sum::<usize>()
}

fn top_name(v: &RuntimeBoxedVal) -> String {
    let s = format!("{:?}", v.data());
    s.split(|c: char| !c.is_alphanumeric()).next().unwrap_or("").to_string()
}

fn top_op(t: &T) -> String {
    match t {
        T::K(_) => "Const".into(),
        T::Leaf(_) => "Leaf".into(),
        T::Un(op, _) | T::Bin(op, _, _) => format!("{op:?}"),
        T::Wrap(k, _) => format!("{k:?}"),
    }
}

/// Finds the smallest sub-tree on which the fold disagrees with the reference (for a sharp key).
fn check_tree(t: &T) -> Result<(), (String, String)> {
    let input = to_rsv(t);
    let folded = match guarded(|| input.constant_fold()) {
        Ok(f) => f,
        Err(p) => {
            return Err((
                format!("panic:{}:{}", top_op(culprit(t)), panic_site(&p)),
                format!("constant_fold panicked: {p}"),
            ))
        }
    };
    let expected = to_rsv(&ref_fold(t));
    if folded != expected {
        let c = culprit(t);
        let got = guarded(|| to_rsv(c).constant_fold()).ok();
        let exp = to_rsv(&ref_fold(c));
        let kind = match &got {
            Some(g) if g.is_known_data() && exp.is_known_data() => "wrong-constant".to_string(),
            Some(g) => format!("rebuilt-as:{}", top_name(g)),
            None => "panic".into(),
        };
        return Err((
            format!("{}:{}", top_op(c), kind),
            format!(
                "fold({}) = {} but the reference gives {}",
                to_rsv(c),
                got.map(|g| g.to_string()).unwrap_or_default(),
                exp
            ),
        ));
    }
    let twice = match guarded(|| folded.constant_fold()) {
        Ok(f) => f,
        Err(p) => return Err((format!("panic-refold:{}", panic_site(&p)), format!("second fold panicked: {p}"))),
    };
    if twice != folded {
        return Err((format!("{}:not-idempotent", top_op(t)), format!("fold(fold(t)) = {twice} differs from fold(t) = {folded}")));
    }
    if folded.size() != node_count(&folded) {
        return Err((
            format!("{}:size", top_op(t)),
            format!("folded value reports size {} but has {} nodes", folded.size(), node_count(&folded)),
        ));
    }
    Ok(())
}

/// Deepest sub-tree whose own fold already disagrees.
fn culprit(t: &T) -> &T {
    fn bad(t: &T) -> bool {
        match guarded(|| to_rsv(t).constant_fold()) {
            Ok(f) => f != to_rsv(&ref_fold(t)),
            Err(_) => true,
        }
    }
    let kids: Vec<&T> = match t {
        T::K(_) | T::Leaf(_) => vec![],
        T::Un(_, a) | T::Wrap(_, a) => vec![a],
        T::Bin(_, a, b) => vec![a, b],
    };
    for k in kids {
        if bad(k) {
            return culprit(k);
        }
    }
    t
}

fn leaves() -> Vec<T> {
    let mut v: Vec<T> = [0u64, 1, 2, 255, 256].iter().map(|x| T::K(U::from_u64(*x))).collect();
    v.push(T::K(U::min_signed()));
    v.push(T::K(U::MAX));
    v.push(T::Leaf(0));
    v.push(T::Leaf(1));
    v
}

fn depth2() -> Vec<T> {
    let l = leaves();
    let mut v = Vec::new();
    for op in BIN {
        for a in &l {
            for b in &l {
                v.push(T::Bin(op, Box::new(a.clone()), Box::new(b.clone())));
            }
        }
    }
    for op in UN {
        for a in &l {
            v.push(T::Un(op, Box::new(a.clone())));
        }
    }
    v
}

#[derive(Clone, Debug)]
enum Chunk {
    ConstPairs(usize),        // operator index (0..21), all B x B
    Depth12,                  // all trees of depth <= 2 and wrappers around depth-2 trees
    Depth3Spine(usize),       // top operator index: op(d2, leaf), op(leaf, d2), unary(d2)
    Depth3Full(usize, usize), // top operator, slice of left children
    Depth4Spine(usize, usize),
}

pub struct C09;

const FULL_SLICES: usize = 8;

fn plan(tier: Tier) -> Vec<Chunk> {
    let mut v = Vec::new();
    for i in 0..21 {
        v.push(Chunk::ConstPairs(i));
    }
    v.push(Chunk::Depth12);
    for i in 0..21 {
        v.push(Chunk::Depth3Spine(i));
    }
    if tier.thorough() {
        for i in 0..19 {
            for s in 0..FULL_SLICES {
                v.push(Chunk::Depth3Full(i, s));
            }
        }
        for i in 0..21 {
            for s in 0..FULL_SLICES {
                v.push(Chunk::Depth4Spine(i, s));
            }
        }
    }
    v
}

fn all_ops() -> Vec<Op> {
    BIN.iter().chain(UN.iter()).copied().collect()
}

fn run_tree(ctx: &mut Ctx, family: &str, t: &T) {
    ctx.case(|| json!({"tree": format!("{t:?}")}));
    ctx.count("evaluations", 1);
    ctx.count(family, 1);
    let mixed = has_leaf(t) && has_const_pair(t);
    if mixed {
        ctx.count("nontrivial_mixed", 1);
    }
    ctx.distinct("trees", crate::util::h64(t));
    if ref_fold(t) != *t {
        ctx.distinct("nontrivial", crate::util::h64(t));
    }
    match check_tree(t) {
        Ok(()) => {
            if mixed {
                ctx.sample(|| json!({"tree": to_rsv(t).to_string(), "folded": to_rsv(&ref_fold(t)).to_string()}));
            }
        }
        Err((key, what)) => ctx.violation(key, what, json!({"tree": tree_json(t)})),
    }
}

fn has_leaf(t: &T) -> bool {
    match t {
        T::K(_) => false,
        T::Leaf(_) => true,
        T::Un(_, a) | T::Wrap(_, a) => has_leaf(a),
        T::Bin(_, a, b) => has_leaf(a) || has_leaf(b),
    }
}
fn has_const_pair(t: &T) -> bool {
    match t {
        T::K(_) | T::Leaf(_) => false,
        T::Un(_, a) => matches!(**a, T::K(_)) || has_const_pair(a),
        T::Wrap(_, a) => has_const_pair(a),
        T::Bin(_, a, b) => {
            (matches!(**a, T::K(_)) && matches!(**b, T::K(_))) || has_const_pair(a) || has_const_pair(b)
        }
    }
}

pub fn tree_json(t: &T) -> Value {
    match t {
        T::K(u) => json!({"k": u.hex_min()}),
        T::Leaf(i) => json!({"leaf": i}),
        T::Un(op, a) => json!({"un": format!("{op:?}"), "a": tree_json(a)}),
        T::Bin(op, a, b) => json!({"bin": format!("{op:?}"), "a": tree_json(a), "b": tree_json(b)}),
        T::Wrap(k, a) => json!({"wrap": format!("{k:?}"), "a": tree_json(a)}),
    }
}

pub fn tree_from_json(v: &Value) -> T {
    if let Some(k) = v.get("k") {
        return T::K(U::from_hex(k.as_str().unwrap()).unwrap());
    }
    if let Some(l) = v.get("leaf") {
        return T::Leaf(l.as_u64().unwrap() as u8);
    }
    let find_op = |name: &str| all_ops().into_iter().find(|o| format!("{o:?}") == name).expect("op");
    if let Some(u) = v.get("un") {
        return T::Un(find_op(u.as_str().unwrap()), Box::new(tree_from_json(&v["a"])));
    }
    if let Some(b) = v.get("bin") {
        return T::Bin(
            find_op(b.as_str().unwrap()),
            Box::new(tree_from_json(&v["a"])),
            Box::new(tree_from_json(&v["b"])),
        );
    }
    let w = v["wrap"].as_str().unwrap();
    let k = WRAPS.into_iter().find(|k| format!("{k:?}") == w).expect("wrap");
    T::Wrap(k, Box::new(tree_from_json(&v["a"])))
}

impl Check for C09 {
    fn id(&self) -> &'static str {
        "C09"
    }
    fn level(&self) -> &'static str {
        "exploration"
    }
    fn chunks(&self, tier: Tier) -> usize {
        plan(tier).len()
    }
    fn run_chunk(&self, tier: Tier, chunk: usize, ctx: &mut Ctx) {
        let l = leaves();
        match plan(tier)[chunk].clone() {
            Chunk::ConstPairs(i) => {
                let b = boundary_set(tier.thorough());
                let op = all_ops()[i];
                if i < 19 {
                    for x in &b {
                        for y in &b {
                            run_tree(ctx, "const_pairs", &T::Bin(op, Box::new(T::K(*x)), Box::new(T::K(*y))));
                        }
                    }
                } else {
                    for x in &b {
                        run_tree(ctx, "const_pairs", &T::Un(op, Box::new(T::K(*x))));
                    }
                }
            }
            Chunk::Depth12 => {
                for t in &l {
                    run_tree(ctx, "depth<=2", t);
                }
                for t in depth2() {
                    run_tree(ctx, "depth<=2", &t);
                    for w in WRAPS {
                        run_tree(ctx, "wrapped", &T::Wrap(w, Box::new(t.clone())));
                    }
                }
            }
            Chunk::Depth3Spine(i) => {
                let op = all_ops()[i];
                let d2 = depth2();
                for t in &d2 {
                    if i < 19 {
                        for leaf in &l {
                            run_tree(ctx, "depth3_spine", &T::Bin(op, Box::new(t.clone()), Box::new(leaf.clone())));
                            run_tree(ctx, "depth3_spine", &T::Bin(op, Box::new(leaf.clone()), Box::new(t.clone())));
                        }
                    } else {
                        run_tree(ctx, "depth3_spine", &T::Un(op, Box::new(t.clone())));
                    }
                }
            }
            Chunk::Depth3Full(i, s) => {
                let op = BIN[i];
                let d2 = depth2();
                for (k, a) in d2.iter().enumerate() {
                    if k % FULL_SLICES != s {
                        continue;
                    }
                    for b in &d2 {
                        run_tree(ctx, "depth3_full", &T::Bin(op, Box::new(a.clone()), Box::new(b.clone())));
                    }
                }
            }
            Chunk::Depth4Spine(i, s) => {
                // op(d3spine, leaf) for a thinned leaf set {1, 2^256-1, X}
                let op = all_ops()[i];
                let d2 = depth2();
                let thin = [T::K(U::ONE), T::K(U::MAX), T::Leaf(0)];
                for (k, t2) in d2.iter().enumerate() {
                    if k % FULL_SLICES != s {
                        continue;
                    }
                    for inner_op in BIN {
                        for leaf in &thin {
                            let d3 = T::Bin(inner_op, Box::new(t2.clone()), Box::new(leaf.clone()));
                            if i < 19 {
                                for leaf2 in &thin {
                                    run_tree(
                                        ctx,
                                        "depth4_spine",
                                        &T::Bin(op, Box::new(leaf2.clone()), Box::new(d3.clone())),
                                    );
                                }
                            } else {
                                run_tree(ctx, "depth4_spine", &T::Un(op, Box::new(d3.clone())));
                            }
                        }
                    }
                }
            }
        }
    }
    fn coverage(&self, tier: Tier, total: &Ctx) -> Map<String, Value> {
        let rule = format!(
            "complete enumeration of: 19 binary + 2 unary foldable operators x B x B with |B| = {} boundary constants; all \
             trees of depth <= 2 over 7 constant leaves + 2 opaque leaves, each also under 5 non-foldable wrappers; all \
             depth-3 trees with one depth-2 child and one leaf{}. Oracle: reference folder on the harness's own tree type \
             (ref_u256 with EVM rules, same constructor/same positions otherwise), idempotence, size = node count, no \
             panic. non-trivial = the reference folder changes the tree (some all-constant sub-term exists); distinct = distinct trees",
            boundary_set(tier.thorough()).len(),
            if tier.thorough() {
                "; all depth-3 trees with two depth-2 children; depth-4 spines over a thinned leaf set"
            } else {
                ""
            }
        );
        exploration_coverage(total, total.get("evaluations"), total.distinct_count("nontrivial"), &rule, true)
    }
    fn assumptions(&self, _tier: Tier) -> Vec<String> {
        vec![
            "ref_u256 is cross-checked against Python big integers on B x B at setup time".into(),
            "structural comparison uses the crate's own PartialEq on values (ignores instruction pointer and provenance)".into(),
            "random words and random valuations of the quantifier are sampling clauses and are replaced by the boundary set and the structural oracle".into(),
        ]
    }
    fn replay(&self, replay: &Value) -> bool {
        let t = tree_from_json(&replay["case"]["tree"]);
        println!("tree:      {}", to_rsv(&t));
        println!("reference: {}", to_rsv(&ref_fold(&t)));
        match guarded(|| to_rsv(&t).constant_fold()) {
            Ok(f) => println!("observed:  {f}"),
            Err(p) => println!("observed:  panic {p}"),
        }
        check_tree(&t).is_err()
    }
}
