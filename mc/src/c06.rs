//! C06 — no missed slots: every constant-key storage access yields a layout entry.

use crate::asm::{assemble, op, Tok};
use crate::c10::ref_kinds;
use crate::infra::*;
use crate::obs::{analyze, lazy, Class};
use crate::prog::{run_seq_chunk, seq_chunks};
use crate::ref_evm::{explore, Halt, Limits};
use crate::u256::U;
use crate::util::{from_ethnum, hex, keccak_bytes, keccak_words, unhex};
use crate::vmrun::{run_vm, VmRun};
use serde_json::{json, Map, Value};
use std::collections::BTreeSet;
use storage_layout_extractor as sle;

pub fn keys() -> Vec<U> {
    vec![
        U::ONE,
        U::from_u64(5),
        U::from_u64(10_000),
        U::pow2(64),
        U::pow2(64).add(U::ONE),
        U::pow2(128),
        U::pow2(255),
        U::MAX,
        U::from_hex("360894a13ba1a3210667c828492db98dca3e2076cc3735a920a3ca505d382bbc").unwrap(),
        keccak_bytes(b"a").sub(U::ONE),
    ]
}

#[derive(Clone, Copy, Debug, PartialEq, Eq)]
enum Tk {
    Read(usize),
    Write(usize),
    SloadC(usize),
    SstoreC(usize),
    Ji(u8),
    L,
    Stop,
    Revert,
    Pop,
    CallValue,
    Mask,
    Dup1,
    /// write of a 3-node / 5-node value (caller + 1 [+ 1]) under a literal key
    WriteSum3(usize),
    WriteSum5(usize),
}

fn alphabet() -> Vec<Tk> {
    let mut v = Vec::new();
    for k in 0..keys().len() {
        v.push(Tk::Read(k));
        v.push(Tk::Write(k));
    }
    for k in [0usize, 7] {
        v.push(Tk::SloadC(k));
        v.push(Tk::SstoreC(k));
    }
    v.extend([Tk::Ji(0), Tk::L, Tk::Stop, Tk::Revert, Tk::Pop, Tk::CallValue, Tk::Mask, Tk::Dup1]);
    v.extend([Tk::WriteSum3(1), Tk::WriteSum5(1), Tk::WriteSum3(5)]);
    v
}

fn expand(seq: &[Tk]) -> Option<Vec<u8>> {
    let ks = keys();
    let labels = seq.iter().filter(|t| **t == Tk::L).count();
    let mut t = Vec::new();
    let mut l = 0u8;
    for x in seq {
        match x {
            Tk::Read(k) => t.extend([Tok::Push(ks[*k]), Tok::Op(op::SLOAD), Tok::Op(op::POP)]),
            Tk::Write(k) => t.extend([Tok::Push(U::ONE), Tok::Push(ks[*k]), Tok::Op(op::SSTORE)]),
            Tk::SloadC(k) => t.extend([Tok::Push(ks[*k]), Tok::Op(op::SLOAD)]),
            Tk::SstoreC(k) => t.extend([Tok::Push(ks[*k]), Tok::Op(op::SSTORE)]),
            Tk::Ji(k) => {
                if *k as usize >= labels {
                    return None;
                }
                t.extend([Tok::Op(op::CALLVALUE), Tok::PushLabel(*k, U::ZERO), Tok::Op(op::JUMPI)]);
            }
            Tk::L => {
                t.push(Tok::Label(l));
                l += 1;
            }
            Tk::Stop => t.push(Tok::Op(op::STOP)),
            Tk::Revert => t.extend([Tok::Op(op::PUSH0), Tok::Op(op::PUSH0), Tok::Op(op::REVERT)]),
            Tk::Pop => t.push(Tok::Op(op::POP)),
            Tk::CallValue => t.push(Tok::Op(op::CALLVALUE)),
            Tk::Mask => t.extend([Tok::Push(U::from_u64(0xff)), Tok::Op(op::AND)]),
            Tk::Dup1 => t.push(Tok::Op(op::DUP1)),
            Tk::WriteSum3(k) => t.extend([Tok::Op(op::CALLER), Tok::Push(U::ONE), Tok::Op(op::ADD), Tok::Push(ks[*k]), Tok::Op(op::SSTORE)]),
            Tk::WriteSum5(k) => t.extend([
                Tok::Op(op::CALLER),
                Tok::Push(U::ONE),
                Tok::Op(op::ADD),
                Tok::Push(U::ONE),
                Tok::Op(op::ADD),
                Tok::Push(ks[*k]),
                Tok::Op(op::SSTORE),
            ]),
        }
    }
    Some(assemble(&t))
}

/// keccak(n) for n < 10 000 denotes array data and is exempt.
fn is_small_slot_hash(k: U) -> bool {
    use std::sync::OnceLock;
    static T: OnceLock<BTreeSet<U>> = OnceLock::new();
    T.get_or_init(|| (0..10_000u64).map(|n| keccak_words(&[U::from_u64(n)])).collect())
        .contains(&k)
}

/// (offset of the access, literal key) for every SLOAD/SSTORE directly preceded by a PUSH.
pub fn literal_accesses(code: &[u8]) -> Vec<(u32, U, bool)> {
    let kinds = ref_kinds(code);
    let mut out = Vec::new();
    let mut prev: Option<(usize, u8)> = None;
    for i in 0..code.len() {
        if !kinds[i] {
            continue;
        }
        let b = code[i];
        if b == op::SLOAD || b == op::SSTORE {
            if let Some((p, pb)) = prev {
                if (0x5f..=0x7f).contains(&pb) {
                    let n = (pb - 0x5f) as usize;
                    if p + n < code.len() {
                        out.push((i as u32, U::from_be_slice(&code[p + 1..p + 1 + n]), b == op::SSTORE));
                    }
                }
            }
        }
        prev = Some((i, b));
    }
    out
}

pub struct Verdict {
    pub key: String,
    pub what: String,
}

pub struct Facts {
    pub required: usize,
    pub large: bool,
    pub reads_only: bool,
}

pub fn check_code(code: &[u8]) -> Result<Option<Facts>, Verdict> {
    check_code_with(code, None)
}

/// `size_limit`: value size limit of the VM configuration (None = default).
pub fn check_code_with(code: &[u8], size_limit: Option<usize>) -> Result<Option<Facts>, Verdict> {
    check_code_cfg(code, size_limit, false, None)
}

/// `tight`: iteration limit 1 and fork limit 1. `poll`: the analysis runs under a watchdog that is polled every that
/// many iterations and never says stop (None = the lazy watchdog, which is practically never polled).
pub fn check_code_cfg(code: &[u8], size_limit: Option<usize>, tight: bool, poll: Option<usize>) -> Result<Option<Facts>, Verdict> {
    let accesses = literal_accesses(code);
    if accesses.is_empty() {
        return Ok(None);
    }
    let x = explore(code, false, &Limits::default());
    if x.capped || x.loops {
        return Ok(None);
    }
    let mut cfg = sle::vm::Config::default().with_permissive_errors(true);
    if let Some(l) = size_limit {
        cfg = cfg.with_value_size_limit(l);
    }
    if tight {
        cfg = cfg.with_max_iterations_per_opcode(1).with_max_forks_per_fork_target(1);
    }
    // a poll-every-iteration watchdog counts the iterations of the VM's main loop: an independent witness of how
    // much the VM explored, which does not depend on which states it chose to keep
    let counter = crate::obs::CountingWatchdog::new(1, None);
    let vm = match run_vm(code, cfg.clone(), counter.clone()) {
        VmRun::Ran(o) => o,
        _ => return Ok(None),
    };
    let explored_everything = !tight && crate::c13::ref_vm_work(code, &x) == Some(counter.polls.get());
    // performed = explored by the tool AND performed without fault on some EVM path
    let mut required: Vec<(u32, U, bool)> = Vec::new();
    for (off, k, is_write) in &accesses {
        let performed_ref = x.paths.iter().any(|p| {
            p.executed.contains(off) && !matches!(&p.halt, Halt::Error(e) if e.offset == *off)
        });
        if (vm.executed.contains(off) || explored_everything) && performed_ref && !is_small_slot_hash(*k) {
            required.push((*off, *k, *is_write));
        }
    }
    if required.is_empty() {
        return Ok(None);
    }
    let o = match poll {
        None => analyze(code, cfg, &Vec::new(), lazy()),
        Some(k) => analyze(code, cfg, &Vec::new(), crate::obs::CountingWatchdog::new(k, None)),
    };
    if o.class != Class::Ok {
        return Ok(None); // premise "a successful analysis" does not hold
    }
    let layout = o.layout.as_ref().unwrap();
    let indices: BTreeSet<U> = layout.slots().iter().map(|s| from_ethnum(s.index.0)).collect();
    for (off, k, is_write) in &required {
        if !indices.contains(k) {
            let size_class = if k.bits() > 128 {
                ">2^128"
            } else if k.bits() > 64 {
                ">2^64"
            } else {
                "small"
            };
            return Err(Verdict {
                key: format!(
                    "missed:{}:{size_class}{}{}",
                    if *is_write { "write" } else { "read" },
                    size_limit.map(|l| format!(":size-limit-{l}")).unwrap_or_default(),
                    poll.map(|_| ":monitored").unwrap_or_default()
                ),
                what: format!(
                    "the {} at offset {off} uses the literal key 0x{} but the layout has no entry there (indices: {:?})",
                    if *is_write { "SSTORE" } else { "SLOAD" },
                    k.hex_min(),
                    indices
                ),
            });
        }
    }
    Ok(Some(Facts {
        required: required.len(),
        large: required.iter().any(|(_, k, _)| k.bits() > 64),
        reads_only: required.iter().all(|(_, _, w)| !*w),
    }))
}

pub struct C06;

fn max_len(tier: Tier) -> usize {
    if tier.thorough() {
        5
    } else {
        4
    }
}

impl Check for C06 {
    fn id(&self) -> &'static str {
        "C06"
    }
    fn level(&self) -> &'static str {
        "exploration"
    }
    fn chunks(&self, _tier: Tier) -> usize {
        seq_chunks(alphabet().len()) + 1
    }
    fn run_chunk(&self, tier: Tier, chunk: usize, ctx: &mut Ctx) {
        if chunk == seq_chunks(alphabet().len()) {
            // literal keys in the neighbourhood of keccak(n), n small: only keccak(n) itself denotes array data; the words
            // around it are ordinary 256-bit keys and need their entry like any other
            for n in [0u64, 1, 3, 9_999, 10_000] {
                let h = crate::util::keccak_words(&[U::from_u64(n)]);
                let mut keys: Vec<U> = (1..=9u64).map(|i| h.add(U::from_u64(i))).collect();
                keys.extend([h.sub(U::ONE), h.sub(U::from_u64(2)), h.add(U::from_u64(32)), h.add(U::from_u64(256))]);
                if n == 10_000 {
                    keys.push(h);
                }
                for k in keys {
                    for shape in 0..3 {
                        let t: Vec<Tok> = match shape {
                            0 => vec![Tok::Push(U::ONE), Tok::Push(k), Tok::Op(op::SSTORE)],
                            1 => vec![Tok::Push(k), Tok::Op(op::SLOAD), Tok::Op(op::POP)],
                            _ => vec![Tok::Push(k), Tok::Op(op::SLOAD), Tok::Push(U::ONE), Tok::Op(op::ADD), Tok::Push(k), Tok::Op(op::SSTORE)],
                        };
                        let code = assemble(&t);
                        ctx.case(|| json!({"bytes": hex(&code)}));
                        ctx.count("evaluations", 1);
                        ctx.count("keys_near_a_slot_hash", 1);
                        match check_code(&code) {
                            Ok(Some(_)) => ctx.distinct("nontrivial", crate::util::h64(&code)),
                            Ok(None) => ctx.count("premise_not_met", 1),
                            Err(v) => ctx.violation(format!("{}:near-slot-hash", v.key), format!("{} [key = keccak({n}) + d, {}]", v.what, hex(&code)), json!({"bytes": hex(&code)})),
                        }
                    }
                }
            }
            return;
        }
        let alpha = alphabet();
        run_seq_chunk(alpha.len(), max_len(tier), chunk, &mut |ix| {
            let seq: Vec<Tk> = ix.iter().map(|i| alpha[*i]).collect();
            let Some(code) = expand(&seq) else { return true };
            ctx.case(|| json!({"bytes": hex(&code)}));
            ctx.count("evaluations", 1);
            match check_code(&code) {
                Ok(Some(f)) => {
                    ctx.count("programs_with_required_slots", 1);
                    ctx.count("required_slots", f.required as u64);
                    ctx.distinct("nontrivial", crate::util::h64(&code));
                    if f.large {
                        ctx.count("with_key_above_2^64", 1);
                    }
                    if f.reads_only {
                        ctx.count("reads_only", 1);
                        if f.large {
                            ctx.sample(|| json!({"tokens": format!("{seq:?}"), "bytes": hex(&code), "verdict": "every executed literal key has a layout entry"}));
                        }
                    }
                }
                Ok(None) => ctx.count("premise_not_met", 1),
                Err(v) => ctx.violation(v.key, format!("{} [{seq:?} = {}]", v.what, hex(&code)), json!({"bytes": hex(&code)})),
            }
            // tight exploration limits: an access that was executed must still be witnessed
            ctx.count("evaluations", 1);
            ctx.count("tight_limit_runs", 1);
            if let Err(v) = check_code_cfg(&code, None, true, None) {
                ctx.violation(
                    format!("{}:tight-limits", v.key),
                    format!("{} [{seq:?} = {} with iteration and fork limit 1]", v.what, hex(&code)),
                    json!({"bytes": hex(&code), "tight": true}),
                );
            }
            // how a path ends must not matter: the same accesses followed by SELFDESTRUCT, RETURN or INVALID
            if ix.len() <= 3 {
                for (name, tail) in [("SELFDESTRUCT", vec![op::CALLER, op::SELFDESTRUCT]), ("RETURN", vec![op::PUSH0, op::PUSH0, op::RETURN]), ("INVALID", vec![op::INVALID])] {
                    let mut ended = code.clone();
                    ended.extend(&tail);
                    ctx.case(|| json!({"bytes": hex(&ended)}));
                    ctx.count("evaluations", 1);
                    ctx.count("terminator_runs", 1);
                    match check_code(&ended) {
                        Ok(Some(_)) => ctx.distinct("nontrivial", crate::util::h64(&ended)),
                        Ok(None) => {}
                        Err(v) => ctx.violation(format!("{}:before-{name}", v.key), format!("{} [{seq:?} + {name} = {}]", v.what, hex(&ended)), json!({"bytes": hex(&ended)})),
                    }
                }
            }
            // a watchdog that is really polled (and never stops anything) must not change what is reported
            if ix.len() <= 3 {
                for poll in [1usize, 2, 3, 7] {
                    ctx.count("evaluations", 1);
                    ctx.count("monitored_runs", 1);
                    match check_code_cfg(&code, None, false, Some(poll)) {
                        Ok(Some(_)) => ctx.distinct("nontrivial", crate::util::h64(&(&code, "poll", poll))),
                        Ok(None) => {}
                        Err(v) => ctx.violation(
                            v.key,
                            format!("{} [{seq:?} = {} under a never-stopping watchdog polled every {poll} iteration(s)]", v.what, hex(&code)),
                            json!({"bytes": hex(&code), "poll": poll}),
                        ),
                    }
                }
            }
            // small value-size limits: culling must never remove the witness of an access
            if ix.len() <= 3 {
                for limit in [1usize, 2, 3, 4, 5, 6] {
                    ctx.count("evaluations", 1);
                    ctx.count("small_size_limit_runs", 1);
                    match check_code_with(&code, Some(limit)) {
                        Ok(Some(_)) => ctx.distinct("nontrivial", crate::util::h64(&(&code, limit))),
                        Ok(None) => {}
                        Err(v) => ctx.violation(
                            v.key,
                            format!("{} [{seq:?} = {} with value size limit {limit}]", v.what, hex(&code)),
                            json!({"bytes": hex(&code), "size_limit": limit}),
                        ),
                    }
                }
            }
            true
        });
    }
    fn coverage(&self, tier: Tier, total: &Ctx) -> Map<String, Value> {
        let rule = format!(
            "all token sequences <= {} over {} tokens: literal-key read (PUSH k SLOAD POP) and write (PUSH 1 PUSH k SSTORE) for 10 \
             boundary keys (1, 5, 10000, 2^64, 2^64+1, 2^128, 2^255, 2^256-1, the EIP-1967 slot, keccak(\"a\")-1), SLOAD/SSTORE with the \
             operand left on / taken from the stack for two keys, and context tokens (conditional jump to a label, JUMPDEST, STOP, \
             REVERT, POP, CALLVALUE, a mask, DUP1), writes of 3- and 5-node values; sequences <= 3 additionally with SELFDESTRUCT / RETURN / INVALID appended, under value size limits \
             1..6 (culling at the limit must never remove the witness of an access) and under a never-stopping watchdog polled every 1, 2, 3, 7 iterations. Plus literal keys within 9 words above and 2 below keccak(n) for n = 0, 1, 3, 9 999, 10 000 (and at +32, +256), written, read and read-modify-written. Premise from the tool (offset executed in some stored state, or the VM's main loop made exactly as many iterations as the \
             reference EVM's path tree has steps) and from the reference \
             EVM (the access does not fault); when permissive analyze() succeeds every such key that is not keccak(n), n < 10000, must \
             be the index of an entry, compared as a 256-bit word. non-trivial = program with at least one required key; distinct by content",
            max_len(tier),
            alphabet().len()
        );
        exploration_coverage(total, total.get("evaluations"), total.distinct_count("nontrivial"), &rule, true)
    }
    fn assumptions(&self, _tier: Tier) -> Vec<String> {
        vec![
            "computed keys, entry types and extra entries are don't-cares".into(),
            "programs on which analysis fails or that loop do not meet the premise and are only counted".into(),
        ]
    }
    fn replay(&self, replay: &Value) -> bool {
        let code = unhex(replay["case"]["bytes"].as_str().unwrap());
        println!("code: {}", hex(&code));
        println!("literal accesses: {:?}", literal_accesses(&code));
        let o = analyze(&code, sle::vm::Config::default().with_permissive_errors(true), &Vec::new(), lazy());
        println!("analysis: {}", o.json());
        let limit = replay["case"]["size_limit"].as_u64().map(|l| l as usize);
        let tight = replay["case"]["tight"].as_bool().unwrap_or(false);
        let poll = replay["case"]["poll"].as_u64().map(|l| l as usize);
        match check_code_cfg(&code, limit, tight, poll) {
            Ok(_) => false,
            Err(v) => {
                println!("observed: {}: {}", v.key, v.what);
                true
            }
        }
    }
}
