//! C04 — standard storage idioms are recovered with the right slot, kind and packing.

use crate::idioms::*;
use crate::infra::*;
use crate::obs::{analyze, lazy, layout_canon, type_canon, Class};
use crate::u256::U;
use crate::util::{from_ethnum, hex, unhex};
use serde_json::{json, Map, Value};
use storage_layout_extractor as sle;
use sle::layout::StorageLayout;
use sle::tc::abi::AbiType;

pub fn slots() -> Vec<U> {
    vec![
        U::ZERO,
        U::ONE,
        U::from_u64(5),
        U::from_u64(77),
        U::pow2(64).add(U::from_u64(3)),
        U::pow2(200),
    ]
}

fn key_kind_lists(depth: usize) -> Vec<Vec<KeyKind>> {
    let mut out = vec![vec![]];
    for _ in 0..depth {
        let mut next = Vec::new();
        for l in &out {
            for k in [KeyKind::Address, KeyKind::Word, KeyKind::Const] {
                let mut l2: Vec<KeyKind> = l.clone();
                l2.push(k);
                next.push(l2);
            }
        }
        out = next;
    }
    out
}

pub fn basic_kinds() -> Vec<Kind> {
    let mut v = vec![Kind::Word, Kind::AddressWord, Kind::DynArray];
    for d in 1..=4 {
        for keys in key_kind_lists(d) {
            v.push(Kind::Mapping(keys.clone(), false));
            v.push(Kind::Mapping(keys, true));
        }
    }
    v
}

pub fn representative_kinds() -> Vec<Kind> {
    vec![
        Kind::Word,
        Kind::AddressWord,
        Kind::Mapping(vec![KeyKind::Address], false),
        Kind::Mapping(vec![KeyKind::Word, KeyKind::Address], true),
        Kind::DynArray,
        Kind::Packed(vec![(0, 8), (8, 24)]),
        Kind::Packed(vec![(0, 20), (20, 1), (21, 11)]),
    ]
}

fn is_20_bytes(t: &AbiType) -> bool {
    matches!(
        t,
        AbiType::Address
            | AbiType::Bytes { length: Some(20) }
            | AbiType::UInt { size: Some(160) }
            | AbiType::Number { size: Some(160) }
            | AbiType::Int { size: Some(160) }
            | AbiType::Bits { length: Some(160) }
    )
}

/// The first component of a value type (a struct / packed value starts with its offset-0 element).
fn head(t: &AbiType) -> &AbiType {
    match t {
        AbiType::Struct { elements } => elements.iter().find(|e| e.offset == 0).map(|e| head(&e.typ)).unwrap_or(t),
        _ => t,
    }
}

pub fn check_var(layout: &StorageLayout, var: &Var, mode: Mode) -> Result<(), (String, String)> {
    let entries: Vec<_> = layout.slots().iter().filter(|s| from_ethnum(s.index.0) == var.slot).collect();
    let kind_name = match &var.kind {
        Kind::Word => "word".to_string(),
        Kind::AddressWord => "address-word".to_string(),
        Kind::Mapping(k, av) => format!("mapping-depth{}{}", k.len(), if *av { "-addrvalue" } else { "" }),
        Kind::DynArray => "dynarray".to_string(),
        Kind::DynArrayFolded => "dynarray-prefolded".to_string(),
        Kind::Packed(f) => format!("packed{}", f.len()),
    };
    let mode_name = format!("{mode:?}").to_lowercase();
    if entries.is_empty() {
        return Err((
            format!("missing-entry:{kind_name}:{mode_name}"),
            format!("no entry at slot 0x{} for a {kind_name}", var.slot.hex_min()),
        ));
    }
    let shown = || entries.iter().map(|e| format!("{}:{}", e.offset, type_canon(&e.typ))).collect::<Vec<_>>().join(", ");
    match &var.kind {
        Kind::Word => Ok(()),
        Kind::AddressWord => {
            if entries.iter().any(|e| e.offset == 0 && is_20_bytes(&e.typ)) {
                Ok(())
            } else {
                Err((
                    format!("not-20-bytes:{kind_name}:{mode_name}"),
                    format!("the word masked to 160 bits at slot 0x{} is reported as [{}]", var.slot.hex_min(), shown()),
                ))
            }
        }
        Kind::Mapping(keys, addr_value) => {
            let Some(e) = entries.iter().find(|e| e.offset == 0 && matches!(e.typ, AbiType::Mapping { .. })) else {
                return Err((
                    format!("not-a-mapping:{kind_name}:{mode_name}"),
                    format!("the mapping at slot 0x{} is reported as [{}]", var.slot.hex_min(), shown()),
                ));
            };
            let mut t = &e.typ;
            for (i, k) in keys.iter().enumerate() {
                let AbiType::Mapping { key_type, value_type } = t else {
                    return Err((
                        format!("mapping-depth:{kind_name}:{mode_name}"),
                        format!("the mapping at slot 0x{} has nesting depth {i} instead of {}: {}", var.slot.hex_min(), keys.len(), type_canon(&e.typ)),
                    ));
                };
                if *k == KeyKind::Address && !is_20_bytes(key_type) {
                    return Err((
                        format!("key-not-20-bytes:{kind_name}:{mode_name}"),
                        format!("key {i} of the mapping at slot 0x{} is masked to 160 bits but reported as {}", var.slot.hex_min(), type_canon(key_type)),
                    ));
                }
                t = head(value_type);
            }
            if matches!(t, AbiType::Mapping { .. }) {
                return Err((
                    format!("mapping-depth:{kind_name}:{mode_name}"),
                    format!("the mapping at slot 0x{} is nested deeper than {}: {}", var.slot.hex_min(), keys.len(), type_canon(&e.typ)),
                ));
            }
            if *addr_value && !is_20_bytes(t) {
                return Err((
                    format!("value-not-20-bytes:{kind_name}:{mode_name}"),
                    format!("the value of the mapping at slot 0x{} is masked to 160 bits but reported as {}", var.slot.hex_min(), type_canon(t)),
                ));
            }
            Ok(())
        }
        Kind::DynArray | Kind::DynArrayFolded => {
            if entries.iter().any(|e| e.offset == 0 && matches!(e.typ, AbiType::DynArray { .. })) {
                Ok(())
            } else {
                Err((
                    format!("not-a-dynarray:{kind_name}:{mode_name}"),
                    format!("the dynamic array at slot 0x{} is reported as [{}]", var.slot.hex_min(), shown()),
                ))
            }
        }
        Kind::Packed(fields) => {
            for (k, w) in fields {
                let want_off = 8 * k;
                let want_w = 8 * w;
                let ok = entries.iter().any(|e| e.offset == want_off && crate::c12::width(&e.typ) == Some(want_w));
                if !ok {
                    return Err((
                        format!("packed-field:{kind_name}:{mode_name}"),
                        format!(
                            "field at bit {want_off} of width {want_w} of the packed word at slot 0x{} is missing; entries: [{}]",
                            var.slot.hex_min(),
                            shown()
                        ),
                    ));
                }
            }
            Ok(())
        }
    }
}

#[derive(Clone, Debug)]
pub struct Case {
    pub vars: Vec<(Var, Mode)>,
    pub spelling: usize,
}

pub fn build(case: &Case) -> Vec<u8> {
    let sp = &SPELLINGS[case.spelling];
    let mut branches = Vec::new();
    for (v, m) in &case.vars {
        branches.extend(fragments(v, *m, sp));
    }
    program(&branches, Dispatcher::Selector)
}

pub fn check_case(case: &Case) -> Result<bool, (String, String)> {
    let code = build(case);
    let o = analyze(&code, sle::vm::Config::default(), &Vec::new(), lazy());
    if o.class == Class::Panic {
        return Ok(false);
    }
    if o.class != Class::Ok {
        return Err((
            format!("analysis-fails:{:?}", o.class),
            format!("the analysis of a plain idiom program fails: {:?}", o.errors),
        ));
    }
    let layout = o.layout.as_ref().unwrap();
    for (v, m) in &case.vars {
        check_var(layout, v, *m).map_err(|(k, w)| (k, format!("{w} [layout {}]", layout_canon(layout))))?;
    }
    Ok(true)
}

pub fn case_json(c: &Case) -> Value {
    json!({
        "spelling": c.spelling,
        "vars": c.vars.iter().map(|(v, m)| json!({
            "slot": v.slot.hex_min(),
            "mode": format!("{m:?}"),
            "kind": kind_json(&v.kind),
        })).collect::<Vec<_>>(),
        "bytes": hex(&build(c)),
    })
}

fn kind_json(k: &Kind) -> Value {
    match k {
        Kind::Word => json!("word"),
        Kind::AddressWord => json!("address_word"),
        Kind::DynArray => json!("dyn_array"),
        Kind::DynArrayFolded => json!("dyn_array_prefolded"),
        Kind::Mapping(keys, av) => json!({"mapping": keys.iter().map(|k| format!("{k:?}")).collect::<Vec<_>>(), "address_value": av}),
        Kind::Packed(f) => json!({"packed": f}),
    }
}

pub fn case_from_json(v: &Value) -> Case {
    let vars = v["vars"]
        .as_array()
        .unwrap()
        .iter()
        .map(|x| {
            let slot = U::from_hex(x["slot"].as_str().unwrap()).unwrap();
            let mode = match x["mode"].as_str().unwrap() {
                "Read" => Mode::Read,
                "Write" => Mode::Write,
                "WriteAll" => Mode::WriteAll,
                _ => Mode::Both,
            };
            let k = &x["kind"];
            let kind = if k == "word" {
                Kind::Word
            } else if k == "address_word" {
                Kind::AddressWord
            } else if k == "dyn_array" {
                Kind::DynArray
            } else if k == "dyn_array_prefolded" {
                Kind::DynArrayFolded
            } else if let Some(m) = k.get("mapping") {
                Kind::Mapping(
                    m.as_array()
                        .unwrap()
                        .iter()
                        .map(|s| if s == "Address" { KeyKind::Address } else if s == "Const" { KeyKind::Const } else { KeyKind::Word })
                        .collect(),
                    k["address_value"].as_bool().unwrap_or(false),
                )
            } else {
                Kind::Packed(
                    k["packed"]
                        .as_array()
                        .unwrap()
                        .iter()
                        .map(|f| (f[0].as_u64().unwrap() as usize, f[1].as_u64().unwrap() as usize))
                        .collect(),
                )
            };
            (Var { slot, kind }, mode)
        })
        .collect();
    Case {
        vars,
        spelling: v["spelling"].as_u64().unwrap_or(0) as usize,
    }
}

const MODES: [Mode; 4] = [Mode::Read, Mode::Write, Mode::Both, Mode::WriteAll];

#[derive(Clone, Debug)]
enum Chunk {
    Single(usize),        // basic kind index
    Splits(usize, usize), // number of fields, slice
    Pairs(usize, usize),  // representative kinds a, b
    Triples(usize, usize),
    Folded(usize), // slice of the 10000 slots whose hash the tool recognises when pre-folded
    Crowd(usize),  // dominant kind index: many variables of one kind next to one of another kind
}

/// Kinds that may dominate a contract: the representative ones and a six-field packed word.
fn crowd_kinds() -> Vec<Kind> {
    let mut v = representative_kinds();
    v.push(Kind::Packed(vec![(0, 1), (1, 2), (3, 3), (6, 4), (10, 5), (15, 17)]));
    v
}

const FOLDED_SLICES: usize = 16;

const SPLIT_SLICES: usize = 64;

fn plan(tier: Tier) -> Vec<Chunk> {
    let mut v = Vec::new();
    for i in 0..basic_kinds().len() {
        v.push(Chunk::Single(i));
    }
    let max_fields = if tier.thorough() { 6 } else { 3 };
    for n in 2..=max_fields {
        let slices = if n <= 3 { 4 } else { SPLIT_SLICES };
        for s in 0..slices {
            v.push(Chunk::Splits(n, s));
        }
    }
    for s in 0..FOLDED_SLICES {
        v.push(Chunk::Folded(s));
    }
    for d in 0..crowd_kinds().len() {
        v.push(Chunk::Crowd(d));
    }
    let r = representative_kinds().len();
    for a in 0..r {
        for b in 0..r {
            v.push(Chunk::Pairs(a, b));
            if tier.thorough() {
                v.push(Chunk::Triples(a, b));
            }
        }
    }
    v
}

fn run(ctx: &mut Ctx, family: &str, case: &Case) {
    ctx.case(|| case_json(case));
    ctx.count("evaluations", 1);
    ctx.count(family, 1);
    match check_case(case) {
        Ok(true) => {
            ctx.distinct("nontrivial", crate::util::h64(&format!("{case:?}")));
            if case.vars.len() > 1 {
                ctx.sample(|| {
                    let mut j = case_json(case);
                    j["verdict"] = json!("every variable recovered with the right slot, kind and packing");
                    j
                });
            }
        }
        Ok(false) => ctx.count("skipped_other_property", 1),
        Err((k, w)) => ctx.violation(k, w, case_json(case)),
    }
}

pub struct C04;

impl Check for C04 {
    fn id(&self) -> &'static str {
        "C04"
    }
    fn level(&self) -> &'static str {
        "exploration"
    }
    fn chunks(&self, tier: Tier) -> usize {
        plan(tier).len()
    }
    fn run_chunk(&self, tier: Tier, chunk: usize, ctx: &mut Ctx) {
        match plan(tier)[chunk].clone() {
            Chunk::Single(i) => {
                let kind = basic_kinds()[i].clone();
                for slot in slots() {
                    for mode in MODES {
                        for sp in 0..SPELLINGS.len() {
                            run(
                                ctx,
                                "single_variable",
                                &Case {
                                    vars: vec![(
                                        Var {
                                            slot,
                                            kind: kind.clone(),
                                        },
                                        mode,
                                    )],
                                    spelling: sp,
                                },
                            );
                        }
                    }
                }
            }
            Chunk::Splits(n, slice) => {
                let slices = if n <= 3 { 4 } else { SPLIT_SLICES };
                for (i, fields) in splits(n).into_iter().enumerate() {
                    if i % slices != slice {
                        continue;
                    }
                    // every split: one slot small, one large; mode and spelling rotate so that each split sees all of them over the family
                    for (j, slot) in [U::from_u64(5), U::pow2(200)].into_iter().enumerate() {
                        let all_modes = [Mode::Read, Mode::Write, Mode::Both, Mode::WriteAll];
                        let (modes, spellings): (Vec<Mode>, Vec<usize>) = if n <= 3 {
                            (all_modes.to_vec(), (0..SPELLINGS.len()).collect())
                        } else {
                            (vec![all_modes[(i + j) % 4]], vec![(i + j) % SPELLINGS.len()])
                        };
                        for mode in &modes {
                            for sp in &spellings {
                                run(
                                    ctx,
                                    "packed_splits",
                                    &Case {
                                        vars: vec![(
                                            Var {
                                                slot,
                                                kind: Kind::Packed(fields.clone()),
                                            },
                                            *mode,
                                        )],
                                        spelling: *sp,
                                    },
                                );
                            }
                        }
                    }
                }
            }
            Chunk::Folded(slice) => {
                for n in (slice as u64..10_000).step_by(FOLDED_SLICES) {
                    for mode in [Mode::Read, Mode::Write] {
                        // spellings 0 and 1 differ in the side of ADD the constant is on
                        for sp in 0..2 {
                            run(
                                ctx,
                                "prefolded_array_hashes",
                                &Case {
                                    vars: vec![(
                                        Var {
                                            slot: U::from_u64(n),
                                            kind: Kind::DynArrayFolded,
                                        },
                                        mode,
                                    )],
                                    spelling: sp,
                                },
                            );
                        }
                    }
                }
                // next to another variable: the neighbours of a few slots, both kinds of array side by side
                for n in [0u64, 1, 480, 9_999] {
                    for other in [Kind::DynArray, Kind::Mapping(vec![KeyKind::Address], false), Kind::Packed(vec![(0, 8), (8, 24)])] {
                        if n as usize % FOLDED_SLICES != slice {
                            continue;
                        }
                        for sp in 0..SPELLINGS.len() {
                            run(
                                ctx,
                                "prefolded_array_hashes",
                                &Case {
                                    vars: vec![
                                        (
                                            Var {
                                                slot: U::from_u64(n),
                                                kind: Kind::DynArrayFolded,
                                            },
                                            Mode::Both,
                                        ),
                                        (
                                            Var {
                                                slot: U::from_u64(n + 1),
                                                kind: other.clone(),
                                            },
                                            Mode::Both,
                                        ),
                                    ],
                                    spelling: sp,
                                },
                            );
                        }
                    }
                }
            }
            Chunk::Crowd(d) => {
                // 4 to 12 variables: n variables of one kind at consecutive slots and one variable of each other kind at
                // slot 1; what is inferred for the single variable must not depend on how much evidence surrounds it
                let dominant = crowd_kinds()[d].clone();
                for n in [3usize, 6, 11] {
                    for other in representative_kinds() {
                        for dom_mode in [Mode::Read, Mode::Both] {
                            for sp in 0..2usize {
                                let mut vars = vec![(
                                    Var {
                                        slot: U::ONE,
                                        kind: other.clone(),
                                    },
                                    Mode::Both,
                                )];
                                for i in 0..n {
                                    vars.push((
                                        Var {
                                            slot: U::from_u64(10 + i as u64),
                                            kind: dominant.clone(),
                                        },
                                        dom_mode,
                                    ));
                                }
                                let branches: usize = vars.iter().map(|(v, m)| fragments(v, *m, &SPELLINGS[sp]).len()).sum();
                                if branches >= 100 {
                                    continue;
                                }
                                run(ctx, "many_variables", &Case { vars, spelling: sp });
                            }
                        }
                    }
                }
            }
            Chunk::Pairs(a, b) => {
                let ks = representative_kinds();
                let sl = slots();
                for (i, s1) in sl.iter().enumerate() {
                    for (j, s2) in sl.iter().enumerate() {
                        if i == j {
                            continue;
                        }
                        for m1 in MODES {
                            for m2 in MODES {
                                for sp in 0..SPELLINGS.len() {
                                    run(
                                        ctx,
                                        "two_variables",
                                        &Case {
                                            vars: vec![
                                                (
                                                    Var {
                                                        slot: *s1,
                                                        kind: ks[a].clone(),
                                                    },
                                                    m1,
                                                ),
                                                (
                                                    Var {
                                                        slot: *s2,
                                                        kind: ks[b].clone(),
                                                    },
                                                    m2,
                                                ),
                                            ],
                                            spelling: sp,
                                        },
                                    );
                                }
                            }
                        }
                    }
                }
            }
            Chunk::Triples(a, b) => {
                let ks = representative_kinds();
                let sl = slots();
                for c in 0..ks.len() {
                    // slot triples: 3 orderings of 2 slot sets
                    for (s1, s2, s3) in [(0usize, 1usize, 2usize), (5, 2, 0), (3, 4, 1), (2, 5, 3)] {
                        for (mi, m1) in MODES.iter().enumerate() {
                            for m2 in MODES {
                                let m3 = MODES[(mi + 1) % MODES.len()];
                                let sp = (a + b + c + mi) % SPELLINGS.len();
                                run(
                                    ctx,
                                    "three_variables",
                                    &Case {
                                        vars: vec![
                                            (
                                                Var {
                                                    slot: sl[s1],
                                                    kind: ks[a].clone(),
                                                },
                                                *m1,
                                            ),
                                            (
                                                Var {
                                                    slot: sl[s2],
                                                    kind: ks[b].clone(),
                                                },
                                                m2,
                                            ),
                                            (
                                                Var {
                                                    slot: sl[s3],
                                                    kind: ks[c].clone(),
                                                },
                                                m3,
                                            ),
                                        ],
                                        spelling: sp,
                                    },
                                );
                            }
                        }
                    }
                }
            }
        }
    }
    fn coverage(&self, tier: Tier, total: &Ctx) -> Map<String, Value> {
        let rule = format!(
            "ground-truth layouts -> solc-idiom bytecode (templates transcribed from the shipped solc output): every single variable of \
             kind word / 160-bit-masked word / dynamic array / mapping of depth 1-4 over all key-kind vectors {{address, word, small literal}}^depth with \
             plain or 160-bit-masked value, at 6 slots (0, 1, 5, 77, 2^64+3, 2^200) x 3 access modes (read, write, both; each access \
             in its own dispatcher branch; packed words additionally with one store that writes all fields at once, ORs \
             associated either way) x 5 spellings (mul/shl packing, shr/div unpacking, mask on either side of AND, a uniform accessor that also shifts the field at bit 0 by zero, hash on \
             either side of ADD); all {} splits of a 32-byte word into 2..{} fields at byte boundaries as packed variables; dynamic arrays whose keccak(slot) is \
             pre-folded into a PUSH constant at EVERY slot 0..9999 (the range the tool documents) x read / write x constant on either \
             side of ADD; contracts of 4, 7 and 12 variables (3, 6 or 11 variables of one of 8 kinds incl. a six-field packed word at consecutive slots, read or read and written, next to one variable of each representative kind); all ordered \
             pairs{} of 7 representative kinds at all ordered slot pairs x 9 mode pairs x 5 spellings. Oracle: an entry at exactly the \
             slot whose kind matches (mapping nested to the right depth, dynamic array, packed fields at the right bit offsets with \
             the right widths, 20-byte quantity for 160-bit-masked words / keys / values). non-trivial = every generated program; \
             distinct by ground truth and spelling",
            if tier.thorough() { 206_367 } else { 496 },
            if tier.thorough() { 6 } else { 3 },
            if tier.thorough() { " and a family of triples" } else { "" }
        );
        exploration_coverage(total, total.get("evaluations"), total.distinct_count("nontrivial"), &rule, true)
    }
    fn assumptions(&self, _tier: Tier) -> Vec<String> {
        vec![
            "element / value types beyond what the statement names, extra entries and conflict payloads are don't-cares".into(),
            "the property's 1-12 variables: all kinds and modes are crossed for 1-2 variables (3 in the thorough tier), which gives every pairwise interaction; 4-12 variables only in the many-variable family (one dominant kind plus one other variable)".into(),
            "the spelling shl(k, and(v, m)) is not generated: solc does not emit it and the tool documents only mask = sub-word, power-of-two multiply = shift".into(),
        ]
    }
    fn replay(&self, replay: &Value) -> bool {
        let case = case_from_json(&replay["case"]);
        let code = build(&case);
        let o = analyze(&code, sle::vm::Config::default(), &Vec::new(), lazy());
        println!("ground truth: {:?}\ncode: {}\nanalysis: {}", case.vars, hex(&code), o.json());
        let _ = unhex;
        match check_case(&case) {
            Ok(_) => false,
            Err((k, w)) => {
                println!("observed: {k}: {w}");
                true
            }
        }
    }
}
