//! C19 — the union-find forest and the vector map match their abstract models (explicit-state search over all
//! operation histories with state matching; stateright is the search engine).

use crate::infra::*;
use serde_json::{json, Map, Value};
use stateright::{Checker, Model, Property};
use std::collections::{BTreeMap, BTreeSet};
use storage_layout_extractor as sle;
use sle::data::combine::Combine;
use sle::data::disjoint_set::DisjointSet;
use sle::data::vector_map::VectorMap;

/// A non-idempotent commutative monoid: multiset over tokens, so duplicated or lost data is observable.
#[derive(Clone, Debug, Default, PartialEq, Eq, Hash, PartialOrd, Ord)]
pub struct Bag(pub BTreeMap<u8, u32>);
impl Bag {
    fn of(t: u8) -> Bag {
        Bag(BTreeMap::from([(t, 1)]))
    }
}
impl Combine for Bag {
    fn combine(self, other: Self) -> Self {
        let mut m = self.0;
        for (k, v) in other.0 {
            *m.entry(k).or_insert(0) += v;
        }
        Bag(m)
    }
    fn identity() -> Self {
        Bag::default()
    }
}

#[derive(Clone, Copy, Debug, PartialEq, Eq, Hash)]
pub enum UfAct {
    Insert(usize),
    Union(usize, usize),
    AddData(usize, u8),
    SetData(usize, u8),
    Find(usize),
    GetData(usize),
    Sets,
    /// first step only: the forest is constructed by `with_capacity(n)` (255: `Default::default()`); a capacity is
    /// room, not content
    Construct(u8),
}

/// Reference model: explicit partition plus one bag per class.
#[derive(Clone, Debug, Default, PartialEq, Eq, Hash)]
pub struct RefUf {
    classes: Vec<(BTreeSet<usize>, Bag)>,
}
impl RefUf {
    fn class_of(&mut self, x: usize) -> usize {
        if let Some(i) = self.classes.iter().position(|(s, _)| s.contains(&x)) {
            return i;
        }
        self.classes.push((BTreeSet::from([x]), Bag::default()));
        self.classes.len() - 1
    }
    fn apply(&mut self, a: UfAct) {
        if let UfAct::Construct(_) = a {
            self.classes.clear();
            return;
        }
        match a {
            UfAct::Insert(x) | UfAct::Find(x) | UfAct::GetData(x) => {
                self.class_of(x);
            }
            UfAct::Union(x, y) => {
                let i = self.class_of(x);
                let j = self.class_of(y);
                if i != j {
                    let (sj, bj) = self.classes[j].clone();
                    self.classes[i].0.extend(sj);
                    let bi = std::mem::take(&mut self.classes[i].1);
                    self.classes[i].1 = bi.combine(bj);
                    self.classes.remove(j);
                }
            }
            UfAct::AddData(x, t) => {
                let i = self.class_of(x);
                let b = std::mem::take(&mut self.classes[i].1);
                self.classes[i].1 = b.combine(Bag::of(t));
            }
            UfAct::SetData(x, t) => {
                let i = self.class_of(x);
                self.classes[i].1 = Bag::of(t);
            }
            UfAct::Sets | UfAct::Construct(_) => {}
        }
        self.classes.sort();
    }
    fn members(&self) -> BTreeSet<usize> {
        self.classes.iter().flat_map(|(s, _)| s.iter().copied()).collect()
    }
}

type Forest = DisjointSet<usize, Bag>;

#[derive(Clone, Debug)]
pub struct UfState {
    real: Forest,
    model: RefUf,
    depth: usize,
    panicked: Option<String>,
}
impl PartialEq for UfState {
    fn eq(&self, o: &Self) -> bool {
        self.depth == o.depth && self.model == o.model && self.real == o.real && self.panicked == o.panicked
    }
}
impl Eq for UfState {}
impl std::hash::Hash for UfState {
    fn hash<H: std::hash::Hasher>(&self, h: &mut H) {
        // the forest's internal shape (parent pointers) is part of the key: futures may depend on it
        format!("{:?}", self.real).hash(h);
        self.model.hash(h);
        self.depth.hash(h);
        self.panicked.hash(h);
    }
}

fn apply_real(f: &mut Forest, a: UfAct) {
    match a {
        UfAct::Insert(x) => f.insert(x),
        UfAct::Union(x, y) => f.union(&x, &y),
        UfAct::AddData(x, t) => f.add_data(&x, Bag::of(t)),
        UfAct::SetData(x, t) => f.set_data(&x, Bag::of(t)),
        UfAct::Find(x) => {
            let _ = f.find(&x);
        }
        UfAct::GetData(x) => {
            let _ = f.get_data(&x);
        }
        UfAct::Sets => {
            let _ = f.sets();
        }
        UfAct::Construct(255) => *f = Forest::default(),
        UfAct::Construct(n) => *f = Forest::with_capacity(n as usize),
    }
}

/// Compares every observer of a clone of the real forest with the model. Ok or (facet, explanation).
pub fn compare_uf(real: &Forest, model: &RefUf) -> Result<(), (&'static str, String)> {
    let r = guarded(|| -> Result<(), (&'static str, String)> {
        let mut f = real.clone();
        let members = model.members();
        for round in 0..2 {
            // observers must not change the abstract state: everything is checked twice
            let vals: BTreeSet<usize> = f.values().into_iter().collect();
            if vals != members {
                return Err(("members", format!("values() = {vals:?}, model has {members:?} (round {round})")));
            }
            for (s, bag) in &model.classes {
                let first = *s.iter().next().unwrap();
                let root = f.find(&first);
                for x in s {
                    if f.find(x) != root {
                        return Err(("partition", format!("{x} and {first} are in one set in the model but find() differs")));
                    }
                    let d = f.get_data(x).cloned().unwrap_or_default();
                    if d != *bag {
                        return Err(("data", format!("get_data({x}) = {d:?}, model has {bag:?}")));
                    }
                }
                for (t, _) in &model.classes {
                    if t != s {
                        let other = *t.iter().next().unwrap();
                        if f.find(&other) == root {
                            return Err(("partition", format!("{first} and {other} are separate in the model but share a root")));
                        }
                    }
                }
            }
            let sets = f.sets();
            if sets.len() != model.classes.len() {
                return Err(("sets", format!("sets() lists {} sets, model has {}", sets.len(), model.classes.len())));
            }
            let mut seen = BTreeSet::new();
            for (rep, data) in sets {
                let Some(i) = model.classes.iter().position(|(s, _)| s.contains(&rep)) else {
                    return Err(("sets", format!("sets() reports representative {rep} which is in no set")));
                };
                if !seen.insert(i) {
                    return Err(("sets", format!("sets() lists the set of {rep} twice")));
                }
                if data != model.classes[i].1 {
                    return Err(("sets", format!("sets() gives {data:?} for the set of {rep}, model has {:?}", model.classes[i].1)));
                }
            }
        }
        Ok(())
    });
    match r {
        Ok(x) => x,
        Err(p) => Err(("panic", format!("an observer panicked: {p}"))),
    }
}

struct UfModel {
    universe: usize,
    max_depth: usize,
}

fn uf_actions(n: usize) -> Vec<UfAct> {
    let mut v = Vec::new();
    for x in 0..n {
        v.push(UfAct::Insert(x));
    }
    for x in 0..n {
        for y in 0..n {
            v.push(UfAct::Union(x, y));
        }
    }
    for x in 0..n {
        v.push(UfAct::AddData(x, b'a'));
        v.push(UfAct::AddData(x, b'b'));
        v.push(UfAct::SetData(x, b'a'));
        v.push(UfAct::Find(x));
        v.push(UfAct::GetData(x));
    }
    v.push(UfAct::Sets);
    v
}

const FACETS: [&str; 5] = ["members", "partition", "data", "sets", "panic"];

impl Model for UfModel {
    type State = UfState;
    type Action = UfAct;
    fn init_states(&self) -> Vec<UfState> {
        vec![UfState {
            real: Forest::new(),
            model: RefUf::default(),
            depth: 0,
            panicked: None,
        }]
    }
    fn actions(&self, s: &UfState, out: &mut Vec<UfAct>) {
        if s.depth < self.max_depth && s.panicked.is_none() && compare_uf(&s.real, &s.model).is_ok() {
            out.extend(uf_actions(self.universe));
            if s.depth == 0 {
                out.extend([0u8, 1, 3, 4, 9, 255].map(UfAct::Construct));
            }
        }
    }
    fn next_state(&self, s: &UfState, a: UfAct) -> Option<UfState> {
        let mut n = s.clone();
        n.depth += 1;
        n.model.apply(a);
        let mut real = s.real.clone();
        match guarded(move || {
            apply_real(&mut real, a);
            real
        }) {
            Ok(r) => n.real = r,
            Err(p) => n.panicked = Some(p),
        }
        Some(n)
    }
    fn properties(&self) -> Vec<Property<Self>> {
        fn facet_ok(s: &UfState, facet: &str) -> bool {
            if let Some(_) = &s.panicked {
                return facet != "panic";
            }
            match compare_uf(&s.real, &s.model) {
                Ok(()) => true,
                Err((f, _)) => f != facet,
            }
        }
        vec![
            Property::always("members", |_, s: &UfState| facet_ok(s, "members")),
            Property::always("partition", |_, s: &UfState| facet_ok(s, "partition")),
            Property::always("data", |_, s: &UfState| facet_ok(s, "data")),
            Property::always("sets", |_, s: &UfState| facet_ok(s, "sets")),
            Property::always("panic", |_, s: &UfState| facet_ok(s, "panic")),
        ]
    }
}

// ---------------------------------------------------------------------------------------------------------
// vector map

#[derive(Clone, Copy, Debug, PartialEq, Eq, Hash)]
pub enum VmAct {
    Insert(usize, u8),
    Remove(usize),
    /// first step only: the map is built in bulk by `route` (0 = From<Vec<(K, V)>>, 1 = From<&[(K, V)]>, 2 =
    /// with_capacity(n)) from the `n`-th pair list of `build_lists` (repeated keys are overwrites)
    Build(u8, u16),
    /// `*get_mut(k) = 1` when the key is present
    SetViaGetMut(usize),
    /// every value v becomes 3 - v through `iter_mut`
    ToggleAll,
}

/// All lists of at most `max_len` (key, value) pairs over keys 0..universe and values {1, 2}.
pub fn build_lists(universe: usize, max_len: usize) -> Vec<Vec<(usize, u8)>> {
    let mut out: Vec<Vec<(usize, u8)>> = vec![vec![]];
    let mut frontier: Vec<Vec<(usize, u8)>> = vec![vec![]];
    for _ in 0..max_len {
        let mut next = Vec::new();
        for l in &frontier {
            for k in 0..universe {
                for v in [1u8, 2] {
                    let mut n = l.clone();
                    n.push((k, v));
                    next.push(n);
                }
            }
        }
        out.extend(next.iter().cloned());
        frontier = next;
    }
    out
}

const BUILD_UNIVERSE: usize = 3;
const BUILD_MAX_LEN: usize = 3;

/// One step on the real map and on the reference map; Err = the step itself disagreed.
fn apply_vm(real: &mut VMap, model: &mut BTreeMap<usize, u8>, a: VmAct) -> Result<(), String> {
    match a {
        VmAct::Insert(k, v) => {
            model.insert(k, v);
            real.insert(&k, v);
        }
        VmAct::Remove(k) => {
            let expected = model.remove(&k);
            let removed = real.remove(&k);
            if removed != expected {
                return Err(format!("remove returned {removed:?}, model says {expected:?}"));
            }
        }
        VmAct::Build(route, n) => {
            let lists = build_lists(BUILD_UNIVERSE, BUILD_MAX_LEN);
            let pairs = lists[n as usize % lists.len()].clone();
            model.clear();
            for (k, v) in &pairs {
                model.insert(*k, *v);
            }
            *real = match route {
                0 => VMap::from(pairs),
                1 => VMap::from(&pairs[..]),
                _ => {
                    let mut m = VMap::with_capacity(n as usize % 6);
                    for (k, v) in &pairs {
                        m.insert(k, *v);
                    }
                    m
                }
            };
        }
        VmAct::SetViaGetMut(k) => {
            let present = model.contains_key(&k);
            match real.get_mut(&k) {
                Some(x) => {
                    if !present {
                        return Err(format!("get_mut({k}) is Some, model has no such key"));
                    }
                    *x = 1;
                    model.insert(k, 1);
                }
                None => {
                    if present {
                        return Err(format!("get_mut({k}) is None, model has the key"));
                    }
                }
            }
        }
        VmAct::ToggleAll => {
            let mut seen = Vec::new();
            for (k, v) in real.iter_mut() {
                *v = 3u8.wrapping_sub(*v);
                seen.push(k);
            }
            if seen != model.keys().copied().collect::<Vec<_>>() {
                return Err(format!("iter_mut visited {seen:?}, model has keys {:?}", model.keys().collect::<Vec<_>>()));
            }
            for v in model.values_mut() {
                *v = 3u8.wrapping_sub(*v);
            }
        }
    }
    Ok(())
}

type VMap = VectorMap<usize, u8>;

#[derive(Clone, Debug)]
pub struct VmState {
    real: VMap,
    model: BTreeMap<usize, u8>,
    depth: usize,
    panicked: Option<String>,
}
impl PartialEq for VmState {
    fn eq(&self, o: &Self) -> bool {
        self.depth == o.depth && self.model == o.model && self.real == o.real && self.panicked == o.panicked
    }
}
impl Eq for VmState {}
impl std::hash::Hash for VmState {
    fn hash<H: std::hash::Hasher>(&self, h: &mut H) {
        format!("{:?}", self.real).hash(h);
        self.model.hash(h);
        self.depth.hash(h);
        self.panicked.hash(h);
    }
}

pub fn compare_vm(real: &VMap, model: &BTreeMap<usize, u8>, universe: usize) -> Result<(), (&'static str, String)> {
    let r = guarded(|| -> Result<(), (&'static str, String)> {
        for k in 0..universe + 2 {
            if real.get(&k) != model.get(&k) {
                return Err(("get", format!("get({k}) = {:?}, model has {:?}", real.get(&k), model.get(&k))));
            }
        }
        if real.len() != model.len() {
            return Err(("len", format!("len() = {}, model has {} entries", real.len(), model.len())));
        }
        if real.is_empty() != model.is_empty() {
            return Err(("len", format!("is_empty() = {}, model has {} entries", real.is_empty(), model.len())));
        }
        let it: Vec<(usize, u8)> = real.iter().map(|(k, v)| (k, *v)).collect();
        let mi: Vec<(usize, u8)> = model.iter().map(|(k, v)| (*k, *v)).collect();
        if it != mi {
            return Err(("iter", format!("iter() = {it:?}, model has {mi:?}")));
        }
        let ix: Vec<usize> = real.indices().collect();
        if ix != model.keys().copied().collect::<Vec<_>>() {
            return Err(("iter", format!("indices() = {ix:?}")));
        }
        let vs: Vec<u8> = real.values().copied().collect();
        if vs != model.values().copied().collect::<Vec<_>>() {
            return Err(("iter", format!("values() = {vs:?}")));
        }
        let iv: Vec<u8> = real.clone().into_values().collect();
        let ii: Vec<usize> = real.clone().into_indices().collect();
        if iv != vs || ii != ix {
            return Err(("iter", format!("into_values() = {iv:?}, into_indices() = {ii:?}")));
        }
        Ok(())
    });
    match r {
        Ok(x) => x,
        Err(p) => Err(("panic", format!("an observer panicked: {p}"))),
    }
}

struct VmModel {
    universe: usize,
    max_depth: usize,
    /// longest pair list of the bulk constructors
    build_len: usize,
}

impl Model for VmModel {
    type State = VmState;
    type Action = VmAct;
    fn init_states(&self) -> Vec<VmState> {
        vec![VmState {
            real: VMap::new(),
            model: BTreeMap::new(),
            depth: 0,
            panicked: None,
        }]
    }
    fn actions(&self, s: &VmState, out: &mut Vec<VmAct>) {
        if s.depth < self.max_depth && s.panicked.is_none() && compare_vm(&s.real, &s.model, self.universe).is_ok() {
            for k in 0..self.universe {
                out.push(VmAct::Insert(k, 1));
                out.push(VmAct::Insert(k, 2));
                out.push(VmAct::Remove(k));
                out.push(VmAct::SetViaGetMut(k));
            }
            out.push(VmAct::ToggleAll);
            if s.depth == 0 {
                let n = build_lists(BUILD_UNIVERSE, self.build_len).len();
                for route in 0..3u8 {
                    for i in 0..n {
                        out.push(VmAct::Build(route, i as u16));
                    }
                }
            }
        }
    }
    fn next_state(&self, s: &VmState, a: VmAct) -> Option<VmState> {
        let mut n = s.clone();
        n.depth += 1;
        let mut real = s.real.clone();
        let mut model = s.model.clone();
        match guarded(move || {
            let r = apply_vm(&mut real, &mut model, a);
            (real, model, r)
        }) {
            Ok((r, m, step)) => {
                n.real = r;
                n.model = m;
                if let Err(e) = step {
                    n.panicked = Some(e);
                }
            }
            Err(p) => n.panicked = Some(p),
        }
        Some(n)
    }
    fn properties(&self) -> Vec<Property<Self>> {
        fn facet_ok(s: &VmState, facet: &str, universe: usize) -> bool {
            if s.panicked.is_some() {
                return facet != "panic";
            }
            match compare_vm(&s.real, &s.model, universe) {
                Ok(()) => true,
                Err((f, _)) => f != facet,
            }
        }
        vec![
            Property::always("get", |m: &VmModel, s: &VmState| facet_ok(s, "get", m.universe)),
            Property::always("len", |m: &VmModel, s: &VmState| facet_ok(s, "len", m.universe)),
            Property::always("iter", |m: &VmModel, s: &VmState| facet_ok(s, "iter", m.universe)),
            Property::always("panic", |m: &VmModel, s: &VmState| facet_ok(s, "panic", m.universe)),
        ]
    }
}

// ---------------------------------------------------------------------------------------------------------

pub struct C19;

fn act_json(a: &UfAct) -> Value {
    json!(format!("{a:?}"))
}

fn parse_uf_act(s: &str) -> UfAct {
    let nums: Vec<usize> = s
        .split(|c: char| !c.is_ascii_digit())
        .filter(|x| !x.is_empty())
        .map(|x| x.parse().unwrap())
        .collect();
    if s.starts_with("Insert") {
        UfAct::Insert(nums[0])
    } else if s.starts_with("Union") {
        UfAct::Union(nums[0], nums[1])
    } else if s.starts_with("AddData") {
        UfAct::AddData(nums[0], nums[1] as u8)
    } else if s.starts_with("SetData") {
        UfAct::SetData(nums[0], nums[1] as u8)
    } else if s.starts_with("Find") {
        UfAct::Find(nums[0])
    } else if s.starts_with("GetData") {
        UfAct::GetData(nums[0])
    } else if s.starts_with("Construct") {
        UfAct::Construct(nums[0] as u8)
    } else {
        UfAct::Sets
    }
}
fn parse_vm_act(s: &str) -> VmAct {
    let nums: Vec<usize> = s
        .split(|c: char| !c.is_ascii_digit())
        .filter(|x| !x.is_empty())
        .map(|x| x.parse().unwrap())
        .collect();
    if s.starts_with("Insert") {
        VmAct::Insert(nums[0], nums[1] as u8)
    } else if s.starts_with("Build") {
        VmAct::Build(nums[0] as u8, nums[1] as u16)
    } else if s.starts_with("SetViaGetMut") {
        VmAct::SetViaGetMut(nums[0])
    } else if s.starts_with("ToggleAll") {
        VmAct::ToggleAll
    } else {
        VmAct::Remove(nums[0])
    }
}

/// Replays a forest history without any explorer; returns the first disagreement.
pub fn replay_uf(hist: &[UfAct]) -> Option<(usize, &'static str, String)> {
    let mut real = Forest::new();
    let mut model = RefUf::default();
    for (i, a) in hist.iter().enumerate() {
        model.apply(*a);
        let mut r2 = real.clone();
        match guarded(move || {
            apply_real(&mut r2, *a);
            r2
        }) {
            Ok(r) => real = r,
            Err(p) => return Some((i, "panic", p)),
        }
        if let Err((f, w)) = compare_uf(&real, &model) {
            return Some((i, f, w));
        }
    }
    None
}

pub fn replay_vm(hist: &[VmAct], universe: usize) -> Option<(usize, &'static str, String)> {
    let mut real = VMap::new();
    let mut model = BTreeMap::new();
    for (i, a) in hist.iter().enumerate() {
        let a = *a;
        let mut r2 = real.clone();
        let mut m2 = model.clone();
        match guarded(move || {
            let step = apply_vm(&mut r2, &mut m2, a);
            (r2, m2, step)
        }) {
            Ok((r, m, step)) => {
                real = r;
                model = m;
                if let Err(e) = step {
                    return Some((i, "get", e));
                }
            }
            Err(p) => return Some((i, "panic", p)),
        }
        if let Err((f, w)) = compare_vm(&real, &model, universe) {
            return Some((i, f, w));
        }
    }
    None
}

impl Check for C19 {
    fn id(&self) -> &'static str {
        "C19"
    }
    fn level(&self) -> &'static str {
        "model_checking"
    }
    fn chunks(&self, _tier: Tier) -> usize {
        2
    }
    fn stall_secs(&self, tier: Tier) -> u64 {
        if tier.thorough() {
            3600
        } else {
            600
        }
    }
    fn run_chunk(&self, tier: Tier, chunk: usize, ctx: &mut Ctx) {
        let threads = 8;
        if chunk == 0 {
            let depth = if tier.thorough() { 7 } else { 6 };
            // iterative deepening, so that a discovery is a shortest counterexample
            let mut d = 1;
            let checker = loop {
                let m = UfModel {
                    universe: 4,
                    max_depth: d,
                };
                let checker = m.checker().threads(threads).spawn_bfs().join();
                if d == depth || FACETS.iter().any(|f| checker.discovery(f).is_some()) {
                    break checker;
                }
                d += 1;
            };
            ctx.count("uf_states", checker.unique_state_count() as u64);
            ctx.count("uf_transitions", checker.state_count() as u64);
            ctx.count("uf_depth", d as u64);
            for facet in FACETS {
                if let Some(path) = checker.discovery(facet) {
                    let hist: Vec<UfAct> = path.into_actions();
                    let (at, f, what) = replay_uf(&hist).unwrap_or((0, "unreplayable", "the explorer's discovery does not replay".into()));
                    let shape: Vec<String> = hist.iter().map(|a| format!("{a:?}")).collect();
                    ctx.violation(
                        format!("forest:{f}:{}", shape.join(",")),
                        format!("after {shape:?} (step {at}): {what}"),
                        json!({"structure": "forest", "history": hist.iter().map(act_json).collect::<Vec<_>>()}),
                    );
                }
            }
            ctx.sample(|| json!({"structure": "forest", "history": ["Union(0, 1)", "AddData(1, 97)", "Union(2, 1)", "Sets"], "verdict": "explored (one of the histories of the space)"}));
        } else {
            let depth = if tier.thorough() { 8 } else { 6 };
            let mut d = 1;
            let checker = loop {
                let m = VmModel {
                    universe: 4,
                    max_depth: d,
                    build_len: if tier.thorough() { 3 } else { 2 },
                };
                let checker = m.checker().threads(threads).spawn_bfs().join();
                if d == depth || ["get", "len", "iter", "panic"].iter().any(|f| checker.discovery(f).is_some()) {
                    break checker;
                }
                d += 1;
            };
            ctx.count("vm_states", checker.unique_state_count() as u64);
            ctx.count("vm_transitions", checker.state_count() as u64);
            ctx.count("vm_depth", d as u64);
            for facet in ["get", "len", "iter", "panic"] {
                if let Some(path) = checker.discovery(facet) {
                    let hist: Vec<VmAct> = path.into_actions();
                    let (at, f, what) =
                        replay_vm(&hist, 4).unwrap_or((0, "unreplayable", "the explorer's discovery does not replay".into()));
                    let shape: Vec<String> = hist.iter().map(|a| format!("{a:?}")).collect();
                    ctx.violation(
                        format!("vector_map:{f}:{}", shape.join(",")),
                        format!("after {shape:?} (step {at}): {what}"),
                        json!({"structure": "vector_map", "history": shape}),
                    );
                }
            }
            ctx.sample(|| json!({"structure": "vector_map", "history": ["Insert(1, 1)", "Insert(1, 2)", "Remove(3)", "Remove(1)"], "verdict": "explored (one of the histories of the space)"}));
        }
    }
    fn coverage(&self, _tier: Tier, total: &Ctx) -> Map<String, Value> {
        let states = total.get("uf_states") + total.get("vm_states");
        let transitions = total.get("uf_transitions") + total.get("vm_transitions");
        let mut m = mc_coverage(
            total,
            states,
            transitions,
            transitions,
            &format!(
                "stateright BFS over all histories of depth <= {} of the real DisjointSet<usize, multiset> over universe {{0..3}} with 41 \
                 actions (insert, 16 unions, add-data a/b, set-data, find, get-data, sets) that may start with a construction by with_capacity(0, 1, 3, 4, 9) or Default and all histories of depth <= {} of the real \
                 VectorMap<usize,u8> with 17 actions (insert x 2 values, remove, write through get_mut, toggle all values through iter_mut) that may start with a bulk construction (From<Vec>, From<&[..]>, with_capacity + inserts; every pair list of length <= 2 (3 thorough) over 3 keys x 2 values, repeated keys included); state = (Debug of the real object incl. parent pointers, reference model, depth). \
                 Every transition executes the real method and the reference model in lock-step and every state is compared through \
                 all observers (twice, so observers are checked to be pure): that is the conformance check, so every explored \
                 transition is a validated trace step. A state that disagrees is not expanded.",
                total.get("uf_depth"),
                total.get("vm_depth")
            ),
            true,
        );
        m.insert("distinct_nontrivial".into(), json!(states));
        m.insert("evaluations".into(), json!(transitions));
        m
    }
    fn assumptions(&self, _tier: Tier) -> Vec<String> {
        vec![
            "reference models: explicit partition with one multiset per class; BTreeMap".into(),
            "which element is the representative, capacity and max_key_index are don't-cares; find/union/add_data/get_data auto-insert unknown elements (documented behaviour)".into(),
            "the quantifier's random length-400 histories over 64 elements are a sampling clause and are not run".into(),
        ]
    }
    fn replay(&self, replay: &Value) -> bool {
        let c = &replay["case"];
        let hist: Vec<String> = c["history"].as_array().unwrap().iter().map(|x| x.as_str().unwrap().to_string()).collect();
        println!("history: {hist:?}");
        let r = if c["structure"] == "forest" {
            replay_uf(&hist.iter().map(|s| parse_uf_act(s)).collect::<Vec<_>>())
        } else {
            replay_vm(&hist.iter().map(|s| parse_vm_act(s)).collect::<Vec<_>>(), 4)
        };
        match r {
            Some((at, f, w)) => {
                println!("observed: disagreement ({f}) after step {at}: {w}");
                true
            }
            None => {
                println!("observed: agrees with the reference model at every step");
                false
            }
        }
    }
}
