//! Check framework: chunked exhaustive enumeration with subprocess supervision, evidence, replay files and
//! known findings.
//!
//! `mc <ID> --tier T` (parent) spawns `mc <ID> --tier T --child` which enumerates all chunks in parallel
//! (rayon) and catches panics of the subject in-process. The parent supervises: if the child dies by a
//! signal (native stack overflow, allocation failure, abort) or stalls, the chunks that were started but not
//! finished are re-run one at a time in tracing children that log every case before executing it, which
//! attributes the crash or hang to one case; that case is the violation.

use rayon::prelude::*;
use serde_json::{json, Map, Value};
use std::collections::{BTreeMap, HashMap, HashSet};
use std::fs::{self, File, OpenOptions};
use std::io::{Read, Write};
use std::path::{Path, PathBuf};
use std::process::{Command, Stdio};
use std::sync::Mutex;
use std::time::{Duration, Instant};

pub const VERIF_DIR: &str = "/verif";

/// Where evidence, replay files and scratch files go. Always /verif for registered checks; MC_OUT_DIR redirects
/// them for the author's own mutant experiments so that they cannot disturb committed evidence.
pub fn out_dir() -> PathBuf {
    std::env::var("MC_OUT_DIR").map(PathBuf::from).unwrap_or_else(|_| PathBuf::from(VERIF_DIR))
}

#[derive(Clone, Copy, Debug, PartialEq, Eq)]
pub enum Tier {
    Quick,
    Thorough,
}
impl Tier {
    pub fn name(self) -> &'static str {
        match self {
            Tier::Quick => "quick",
            Tier::Thorough => "thorough",
        }
    }
    pub fn thorough(self) -> bool {
        self == Tier::Thorough
    }
}

#[derive(Clone, Debug)]
pub struct Violation {
    /// Class of the failing case; this is what known findings are keyed by.
    pub key: String,
    /// One-line human description.
    pub what: String,
    /// Everything needed to re-execute the case (`mc <ID> --replay file`).
    pub replay: Value,
}

/// Per-chunk accumulator; merged over all chunks.
#[derive(Default)]
pub struct Ctx {
    pub counters: BTreeMap<String, u64>,
    pub distinct: BTreeMap<String, HashSet<u64>>,
    pub samples: Vec<Value>,
    pub violations: Vec<Violation>,
    /// index into the known-findings list -> number of cases of this run that it explains
    pub known: BTreeMap<usize, u64>,
    /// every violation key of the run, kept only when MC_DUMP_KEYS is set (used to author known-finding key files)
    pub all_keys: Vec<String>,
    pub notes: Vec<String>,
    trace: Option<File>,
}

pub const MAX_SAMPLES: usize = 6;
pub const MAX_VIOLATIONS_KEPT: usize = 400;
pub const MAX_PER_KEY: usize = 3;

impl Ctx {
    pub fn count(&mut self, name: &str, n: u64) {
        *self.counters.entry(name.to_string()).or_insert(0) += n;
    }
    pub fn get(&self, name: &str) -> u64 {
        self.counters.get(name).copied().unwrap_or(0)
    }
    pub fn distinct(&mut self, name: &str, h: u64) {
        self.distinct.entry(name.to_string()).or_default().insert(h);
    }
    pub fn distinct_count(&self, name: &str) -> u64 {
        self.distinct.get(name).map(|s| s.len() as u64).unwrap_or(0)
    }
    pub fn sample(&mut self, f: impl FnOnce() -> Value) {
        if self.samples.len() < MAX_SAMPLES {
            self.samples.push(f());
        }
    }
    /// Announce the case that is about to be executed (only costs anything in tracing mode).
    pub fn case(&mut self, f: impl FnOnce() -> Value) {
        if let Some(t) = self.trace.as_mut() {
            let _ = writeln!(t, "C {}", f());
            let _ = t.flush();
        }
    }
    pub fn violation(&mut self, key: impl Into<String>, what: impl Into<String>, replay: Value) {
        let key = key.into();
        if dump_keys_path().is_some() {
            self.all_keys.push(key.clone());
        }
        if let Some(i) = findings().iter().position(|f| finding_matches(f, current_property(), &key)) {
            *self.known.entry(i).or_insert(0) += 1;
            return;
        }
        self.count("violations_raw", 1);
        let same = self.violations.iter().filter(|v| v.key == key).count();
        if same < MAX_PER_KEY && self.violations.len() < MAX_VIOLATIONS_KEPT {
            self.violations.push(Violation {
                key,
                what: what.into(),
                replay,
            });
        }
    }
    fn merge(&mut self, o: Ctx) {
        for (k, v) in o.counters {
            *self.counters.entry(k).or_insert(0) += v;
        }
        for (k, v) in o.distinct {
            self.distinct.entry(k).or_default().extend(v);
        }
        for s in o.samples {
            if self.samples.len() < MAX_SAMPLES {
                self.samples.push(s);
            }
        }
        for v in o.violations {
            // keep the few simplest cases of every class
            let same: Vec<usize> = self
                .violations
                .iter()
                .enumerate()
                .filter(|(_, x)| x.key == v.key)
                .map(|(i, _)| i)
                .collect();
            if same.len() < MAX_PER_KEY {
                if self.violations.len() < MAX_VIOLATIONS_KEPT {
                    self.violations.push(v);
                }
            } else {
                let size = |x: &Violation| x.replay.to_string().len();
                let worst = same.into_iter().max_by_key(|i| size(&self.violations[*i])).unwrap();
                if size(&v) < size(&self.violations[worst]) {
                    self.violations[worst] = v;
                }
            }
        }
        self.notes.extend(o.notes);
        self.all_keys.extend(o.all_keys);
        for (k, v) in o.known {
            *self.known.entry(k).or_insert(0) += v;
        }
    }
}

pub trait Check: Sync {
    fn id(&self) -> &'static str;
    /// exploration | fault_enumeration | model_checking
    fn level(&self) -> &'static str;
    /// Number of independent chunks of the enumeration.
    fn chunks(&self, tier: Tier) -> usize;
    /// Enumerate one chunk completely.
    fn run_chunk(&self, tier: Tier, chunk: usize, ctx: &mut Ctx);
    /// Build the `coverage` object from the merged counters (standard keys are added by the driver).
    fn coverage(&self, tier: Tier, total: &Ctx) -> Map<String, Value>;
    fn assumptions(&self, tier: Tier) -> Vec<String>;
    /// Re-execute one recorded case; returns true iff the violation reproduces. Prints both sides.
    fn replay(&self, replay: &Value) -> bool;
    /// Wall-clock stall limit for one chunk (seconds) before the supervisor intervenes.
    fn stall_secs(&self, _tier: Tier) -> u64 {
        240
    }
}

// ---------------------------------------------------------------------------------------------------------
// known findings

#[derive(Clone, Debug)]
pub struct Finding {
    pub property: String,
    /// exact class key, or a prefix when it ends in `*`
    pub key: String,
    /// optional explicit list of class keys (one per line in a committed file under /verif)
    pub key_set: Option<HashSet<String>>,
    pub status: String,
    pub what: String,
}

static FINDINGS: std::sync::OnceLock<Vec<Finding>> = std::sync::OnceLock::new();
static PROPERTY: std::sync::OnceLock<String> = std::sync::OnceLock::new();

pub fn dump_keys_path() -> Option<&'static String> {
    static P: std::sync::OnceLock<Option<String>> = std::sync::OnceLock::new();
    P.get_or_init(|| std::env::var("MC_DUMP_KEYS").ok()).as_ref()
}

pub fn findings() -> &'static Vec<Finding> {
    FINDINGS.get_or_init(load_findings)
}
pub fn set_current_property(id: &str) {
    let _ = PROPERTY.set(id.to_string());
}
pub fn current_property() -> &'static str {
    PROPERTY.get().map(|s| s.as_str()).unwrap_or("")
}

pub fn load_findings() -> Vec<Finding> {
    let p = Path::new(VERIF_DIR).join("known_findings.json");
    let Ok(s) = fs::read_to_string(&p) else {
        return Vec::new();
    };
    let v: Value = serde_json::from_str(&s).expect("known_findings.json is not valid JSON");
    v["findings"]
        .as_array()
        .map(|a| {
            a.iter()
                .map(|f| Finding {
                    property: f["property"].as_str().unwrap_or("").to_string(),
                    key: f["key"].as_str().unwrap_or("").to_string(),
                    key_set: f["key_file"].as_str().map(|rel| {
                        let path = Path::new(VERIF_DIR).join(rel);
                        fs::read_to_string(&path)
                            .unwrap_or_else(|e| die(&format!("known finding key file {path:?}: {e}")))
                            .lines()
                            .map(|l| l.trim().to_string())
                            .filter(|l| !l.is_empty())
                            .collect()
                    }),
                    status: f["status"].as_str().unwrap_or("").to_string(),
                    what: f["what"].as_str().unwrap_or("").to_string(),
                })
                .collect()
        })
        .unwrap_or_default()
}

fn finding_matches(f: &Finding, property: &str, key: &str) -> bool {
    if f.property != property || f.status != "open" {
        return false;
    }
    let key_ok = if let Some(prefix) = f.key.strip_suffix('*') {
        key.starts_with(prefix)
    } else {
        f.key == key
    };
    match &f.key_set {
        Some(set) => key_ok && set.contains(key),
        None => key_ok,
    }
}

// ---------------------------------------------------------------------------------------------------------
// panic capture

thread_local! {
    static LAST_PANIC: std::cell::RefCell<Option<String>> = const { std::cell::RefCell::new(None) };
}

pub fn install_quiet_panic_hook() {
    std::panic::set_hook(Box::new(|info| {
        let loc = info
            .location()
            .map(|l| format!("{}:{}", l.file(), l.line()))
            .unwrap_or_default();
        let msg = if let Some(s) = info.payload().downcast_ref::<&str>() {
            s.to_string()
        } else if let Some(s) = info.payload().downcast_ref::<String>() {
            s.clone()
        } else {
            "<non-string panic>".to_string()
        };
        LAST_PANIC.with(|p| *p.borrow_mut() = Some(format!("{msg} @ {loc}")));
    }));
}

pub fn take_last_panic() -> String {
    LAST_PANIC.with(|p| p.borrow_mut().take()).unwrap_or_else(|| "<unknown panic>".into())
}

/// Runs `f` catching a panic of the subject; Err carries "message @ file:line".
pub fn guarded<T>(f: impl FnOnce() -> T) -> Result<T, String> {
    match std::panic::catch_unwind(std::panic::AssertUnwindSafe(f)) {
        Ok(v) => Ok(v),
        Err(_) => {
            // a controller may have been left installed
            let _ = storage_layout_extractor::verif_hooks::uninstall();
            Err(take_last_panic())
        }
    }
}

/// Location part ("file:line") of a captured panic, used as the class key of a panic.
pub fn panic_site(msg: &str) -> String {
    let loc = msg.rsplit(" @ ").next().unwrap_or("");
    let parts: Vec<&str> = loc.rsplit('/').take(2).collect();
    parts.into_iter().rev().collect::<Vec<_>>().join("/")
}

// ---------------------------------------------------------------------------------------------------------
// driver

pub struct Args {
    pub tier: Tier,
    pub child: bool,
    pub only_chunk: Option<usize>,
    pub trace: Option<PathBuf>,
    pub progress: Option<PathBuf>,
    pub replay: Option<PathBuf>,
    pub seed: i64,
}

pub fn parse_args(rest: &[String]) -> Args {
    let mut tier = match std::env::var("VERIF_TIER").ok().as_deref() {
        Some("thorough") => Tier::Thorough,
        _ => Tier::Quick,
    };
    let mut a = Args {
        tier,
        child: false,
        only_chunk: None,
        trace: None,
        progress: None,
        replay: None,
        seed: std::env::var("VERIF_SEED").ok().and_then(|s| s.parse().ok()).unwrap_or(0),
    };
    let mut i = 0;
    while i < rest.len() {
        match rest[i].as_str() {
            "--tier" => {
                i += 1;
                tier = match rest[i].as_str() {
                    "thorough" => Tier::Thorough,
                    "quick" => Tier::Quick,
                    x => die(&format!("unknown tier {x}")),
                };
            }
            "--child" => a.child = true,
            "--only-chunk" => {
                i += 1;
                a.only_chunk = Some(rest[i].parse().unwrap());
            }
            "--trace" => {
                i += 1;
                a.trace = Some(PathBuf::from(&rest[i]));
            }
            "--progress" => {
                i += 1;
                a.progress = Some(PathBuf::from(&rest[i]));
            }
            "--replay" => {
                i += 1;
                a.replay = Some(PathBuf::from(&rest[i]));
            }
            x => die(&format!("unknown argument {x}")),
        }
        i += 1;
    }
    a.tier = tier;
    a
}

pub fn die(msg: &str) -> ! {
    println!("MACHINERY-ERROR {msg}");
    std::process::exit(2);
}

fn scratch_dir(id: &str) -> PathBuf {
    let p = out_dir().join("target").join("run").join(id);
    let _ = fs::create_dir_all(&p);
    p
}

pub fn run_check(check: &dyn Check, args: &Args) -> i32 {
    set_current_property(check.id());
    if let Some(path) = &args.replay {
        let s = fs::read_to_string(path).unwrap_or_else(|e| die(&format!("cannot read {path:?}: {e}")));
        let v: Value = serde_json::from_str(&s).unwrap_or_else(|e| die(&format!("bad replay file: {e}")));
        install_quiet_panic_hook();
        let reproduced = check.replay(&v);
        println!("{}", if reproduced { "REPRODUCED" } else { "NOT-REPRODUCED" });
        return if reproduced { 1 } else { 0 };
    }
    if args.child {
        child_main(check, args)
    } else {
        parent_main(check, args)
    }
}

/// Proof that the hooks own the nondeterminism, run before any verdict is trusted: three fixed programs are
/// analysed twice under the canonical plan and once more under a fixed one-deviation plan executed twice; the
/// observations and the order-point logs of equal plans must be identical.
fn determinism_selfcheck() -> Result<(), String> {
    use crate::obs::{analyze, lazy};
    use storage_layout_extractor::verif_hooks::Perm;
    let programs = [
        "5f5460ff165f555f54805f12505f55",
        "34335f52600360205260405f20553460035f5260205f205f3501555f5460ff1660015500",
        "5f3560e01c8063a000000014601a578063a000000114602457005b505f545f5260205ff35b5060015f5260205f2060043501545f5260205ff3",
    ];
    let mut logged = 0usize;
    // the self-check must end even when the subject does not (that is for the checks to report): a step budget with a
    // deadline; a program on which the analysis is stopped is skipped
    let budgeted = || crate::obs::CountingWatchdog::with_deadline(1000, Some(200), 10);
    let _ = lazy;
    for h in programs {
        let code = crate::util::unhex(h);
        let a = analyze(&code, storage_layout_extractor::vm::Config::default(), &Vec::new(), budgeted());
        if a.class == crate::obs::Class::ErrStopped {
            continue;
        }
        let b = analyze(&code, storage_layout_extractor::vm::Config::default(), &Vec::new(), budgeted());
        if a.canon() != b.canon() || a.log != b.log {
            return Err(format!("two canonical runs of {h} differ: {} vs {}", a.canon(), b.canon()));
        }
        if a.class == crate::obs::Class::Ok && a.log.is_empty() {
            return Err(format!("no order point was logged while analysing {h}: the hooks are not active"));
        }
        if a.class == crate::obs::Class::Panic {
            continue;
        }
        logged += a.log.len();
        if let Some(p) = a.log.iter().find(|p| p.len >= 2) {
            let plan = vec![((p.site.to_string(), p.occurrence), Perm::Reverse)];
            let c = analyze(&code, storage_layout_extractor::vm::Config::default(), &plan, budgeted());
            let d = analyze(&code, storage_layout_extractor::vm::Config::default(), &plan, budgeted());
            if c.canon() != d.canon() || c.log != d.log || !c.plan_errors.is_empty() {
                return Err(format!("replaying a one-deviation plan on {h} is not reproducible"));
            }
            if !c.log.iter().any(|q| q.deviated) {
                return Err(format!("a planned deviation was not applied on {h}"));
            }
        }
    }
    if logged == 0 {
        return Err("no order point was logged by any self-check program: the hooks are not active".into());
    }
    Ok(())
}

fn child_main(check: &dyn Check, args: &Args) -> i32 {
    install_quiet_panic_hook();
    if let Err(e) = determinism_selfcheck() {
        println!("MACHINERY-ERROR determinism self-check failed: {e}");
        return 2;
    }
    let start = Instant::now();
    let tier = args.tier;
    let n = check.chunks(tier);

    // tracing mode: one chunk, single-threaded, every case logged before it runs
    if let (Some(c), Some(tp)) = (args.only_chunk, &args.trace) {
        let mut ctx = Ctx {
            trace: Some(File::create(tp).expect("trace file")),
            ..Ctx::default()
        };
        check.run_chunk(tier, c, &mut ctx);
        if let Some(t) = ctx.trace.as_mut() {
            let _ = writeln!(t, "E");
        }
        return 0;
    }

    let progress: Option<Mutex<File>> = args
        .progress
        .as_ref()
        .map(|p| Mutex::new(OpenOptions::new().create(true).append(true).open(p).expect("progress file")));
    let note = |line: String| {
        if let Some(p) = &progress {
            let mut f = p.lock().unwrap();
            let _ = writeln!(f, "{line}");
            let _ = f.flush();
        }
    };

    let threads = std::thread::available_parallelism().map(|n| n.get()).unwrap_or(4).min(16);
    let pool = rayon::ThreadPoolBuilder::new()
        .num_threads(threads)
        .stack_size(64 << 20)
        .build()
        .expect("rayon pool");

    let machinery_errors: Mutex<Vec<String>> = Mutex::new(Vec::new());
    let total: Mutex<Ctx> = Mutex::new(Ctx::default());
    pool.install(|| {
        (0..n).into_par_iter().for_each(|c| {
            note(format!("S {c}"));
            let mut ctx = Ctx::default();
            let r = std::panic::catch_unwind(std::panic::AssertUnwindSafe(|| check.run_chunk(tier, c, &mut ctx)));
            if r.is_err() {
                machinery_errors
                    .lock()
                    .unwrap()
                    .push(format!("harness panicked in chunk {c}: {}", take_last_panic()));
            }
            total.lock().unwrap().merge(ctx);
            note(format!("D {c}"));
        });
    });
    let total = total.into_inner().unwrap();
    let merrs = machinery_errors.into_inner().unwrap();
    if !merrs.is_empty() {
        for m in &merrs {
            println!("MACHINERY-ERROR {m}");
        }
        return 2;
    }
    finish(check, args, total, start.elapsed().as_secs_f64())
}

/// Applies known findings, writes replay files and evidence, prints the verdict lines.
fn finish(check: &dyn Check, args: &Args, total: Ctx, wall: f64) -> i32 {
    let id = check.id();
    if let Some(p) = dump_keys_path() {
        let mut keys = total.all_keys.clone();
        keys.sort();
        keys.dedup();
        fs::write(p, keys.join("\n") + "\n").expect("dump keys");
    }
    let mut known_hit: BTreeMap<String, (String, u64)> = BTreeMap::new();
    for (i, n) in &total.known {
        let f = &findings()[*i];
        known_hit.insert(f.key.clone(), (f.what.clone(), *n));
    }
    let mut real: Vec<&Violation> = Vec::new();
    let mut sorted: Vec<&Violation> = total.violations.iter().collect();
    // simplest (shortest) case of every class first
    sorted.sort_by_cached_key(|v| {
        let body = v.replay.to_string();
        (v.key.clone(), body.len(), body)
    });
    for v in sorted {
        real.push(v);
    }
    for (key, (what, n)) in &known_hit {
        println!("KNOWN-FINDING: property={id} {what} [key={key}; {n} case(s) in this run]");
    }

    let replay_dir = out_dir().join("replays").join(id);
    let _ = fs::remove_dir_all(&replay_dir); // replay files of earlier runs are stale
    let mut printed_keys: HashSet<String> = HashSet::new();
    let mut first_replays: Vec<String> = Vec::new();
    for v in &real {
        if printed_keys.len() >= 12 && !printed_keys.contains(&v.key) {
            continue;
        }
        if !printed_keys.insert(v.key.clone()) {
            continue;
        }
        let _ = fs::create_dir_all(&replay_dir);
        let mut doc = Map::new();
        doc.insert("property".into(), json!(id));
        doc.insert("key".into(), json!(v.key));
        doc.insert("what".into(), json!(v.what));
        doc.insert("tier".into(), json!(args.tier.name()));
        doc.insert("case".into(), v.replay.clone());
        let body = serde_json::to_string_pretty(&Value::Object(doc)).unwrap();
        let name = format!("{:016x}.json", crate::util::h64(&(v.key.as_str(), body.as_str())));
        let path = replay_dir.join(name);
        fs::write(&path, body).expect("write replay");
        println!("VIOLATION property={id} replay={}", path.display());
        println!("  key={} :: {}", v.key, v.what);
        first_replays.push(path.display().to_string());
    }
    let distinct_keys: HashSet<&str> = real.iter().map(|v| v.key.as_str()).collect();
    if !real.is_empty() {
        println!(
            "{} violating case(s) kept ({} raw) in {} distinct class(es)",
            real.len(),
            total.get("violations_raw"),
            distinct_keys.len()
        );
    }

    // evidence
    let mut coverage = check.coverage(args.tier, &total);
    if !coverage.contains_key("samples") {
        coverage.insert("samples".into(), Value::Array(total.samples.clone()));
    }
    let mut counters = Map::new();
    for (k, v) in &total.counters {
        counters.insert(k.clone(), json!(v));
    }
    for (k, v) in &total.distinct {
        counters.insert(format!("distinct_{k}"), json!(v.len()));
    }
    coverage.insert("counters".into(), Value::Object(counters));
    coverage.insert(
        "known_findings_hit".into(),
        json!(known_hit.iter().map(|(k, (_, n))| json!({"key": k, "cases": n})).collect::<Vec<_>>()),
    );
    if !total.notes.is_empty() {
        let mut notes = total.notes.clone();
        notes.sort();
        notes.dedup();
        notes.truncate(20);
        coverage.insert("notes".into(), json!(notes));
    }
    write_evidence(check, args, coverage, wall, real.len() as i64);

    let summary: Vec<String> = total.counters.iter().map(|(k, v)| format!("{k}={v}")).collect();
    println!("[{id} {}] {} wall={:.1}s", args.tier.name(), summary.join(" "), wall);
    if real.is_empty() {
        0
    } else {
        1
    }
}

fn write_evidence(check: &dyn Check, args: &Args, coverage: Map<String, Value>, wall: f64, violations: i64) {
    let id = check.id();
    let ev = json!({
        "property_id": id,
        "tier": args.tier.name(),
        "seed": args.seed,
        "level": check.level(),
        "coverage": Value::Object(coverage),
        "assumptions": check.assumptions(args.tier),
        "wall_s": (wall * 1000.0).round() / 1000.0,
        "violations": violations,
    });
    let dir = out_dir().join("evidence");
    let _ = fs::create_dir_all(&dir);
    fs::write(dir.join(format!("{id}.json")), serde_json::to_string_pretty(&ev).unwrap()).expect("write evidence");
}

fn parent_main(check: &dyn Check, args: &Args) -> i32 {
    let id = check.id();
    let start = Instant::now();
    let exe = std::env::current_exe().expect("current exe");
    let dir = scratch_dir(id);
    let progress = dir.join(format!("progress-{}.log", std::process::id()));
    let _ = fs::remove_file(&progress);
    File::create(&progress).expect("progress file");

    let mut child = Command::new(&exe)
        .arg(id)
        .arg("--tier")
        .arg(args.tier.name())
        .arg("--child")
        .arg("--progress")
        .arg(&progress)
        .stdout(Stdio::inherit())
        .stderr(Stdio::inherit())
        .spawn()
        .unwrap_or_else(|e| die(&format!("cannot spawn child: {e}")));

    let stall = Duration::from_secs(check.stall_secs(args.tier));
    let mut last_len = 0u64;
    let mut last_change = Instant::now();
    let outcome: Result<i32, String> = loop {
        match child.try_wait() {
            Ok(Some(status)) => {
                use std::os::unix::process::ExitStatusExt;
                if let Some(code) = status.code() {
                    break Ok(code);
                }
                break Err(format!("child killed by signal {:?}", status.signal()));
            }
            Ok(None) => {}
            Err(e) => die(&format!("wait failed: {e}")),
        }
        let len = fs::metadata(&progress).map(|m| m.len()).unwrap_or(0);
        if len != last_len {
            last_len = len;
            last_change = Instant::now();
        } else if last_change.elapsed() > stall {
            let _ = child.kill();
            let _ = child.wait();
            break Err(format!("no chunk finished for {}s", stall.as_secs()));
        }
        std::thread::sleep(Duration::from_millis(100));
    };

    let code = match outcome {
        Ok(code) => code,
        Err(why) => {
            println!("[{id}] child did not complete ({why}); attributing to a case");
            attribute_crash(check, args, &exe, &progress, &dir, &why, start)
        }
    };
    let _ = fs::remove_file(&progress);
    code
}

/// Re-runs the unfinished chunks one case at a time and reports the case that kills or hangs the process.
fn attribute_crash(
    check: &dyn Check,
    args: &Args,
    exe: &Path,
    progress: &Path,
    dir: &Path,
    why: &str,
    start: Instant,
) -> i32 {
    let id = check.id();
    let mut started: Vec<usize> = Vec::new();
    let mut done: HashSet<usize> = HashSet::new();
    let mut text = String::new();
    File::open(progress).and_then(|mut f| f.read_to_string(&mut text)).ok();
    for line in text.lines() {
        let mut it = line.split_whitespace();
        match (it.next(), it.next().and_then(|x| x.parse::<usize>().ok())) {
            (Some("S"), Some(c)) => started.push(c),
            (Some("D"), Some(c)) => {
                done.insert(c);
            }
            _ => {}
        }
    }
    let pending: Vec<usize> = started.into_iter().filter(|c| !done.contains(c)).collect();
    let mut culprits: Vec<(usize, String, Value)> = Vec::new();
    let case_stall = Duration::from_secs(30);
    for c in pending.iter().take(32) {
        let trace = dir.join(format!("trace-{}-{c}.log", std::process::id()));
        let _ = fs::remove_file(&trace);
        let mut child = Command::new(exe)
            .arg(id)
            .arg("--tier")
            .arg(args.tier.name())
            .arg("--child")
            .arg("--only-chunk")
            .arg(c.to_string())
            .arg("--trace")
            .arg(&trace)
            .stdout(Stdio::null())
            .stderr(Stdio::null())
            .spawn()
            .unwrap_or_else(|e| die(&format!("cannot spawn tracing child: {e}")));
        let mut last_len = 0u64;
        let mut last_change = Instant::now();
        let kind: Option<String> = loop {
            match child.try_wait() {
                Ok(Some(status)) => {
                    use std::os::unix::process::ExitStatusExt;
                    if status.code() == Some(0) {
                        break None;
                    }
                    break Some(match status.signal() {
                        Some(s) => format!("abort(signal {s})"),
                        None => format!("exit({:?})", status.code()),
                    });
                }
                Ok(None) => {}
                Err(e) => die(&format!("wait failed: {e}")),
            }
            let len = fs::metadata(&trace).map(|m| m.len()).unwrap_or(0);
            if len != last_len {
                last_len = len;
                last_change = Instant::now();
            } else if last_change.elapsed() > case_stall {
                let _ = child.kill();
                let _ = child.wait();
                break Some(format!("hang(>{}s)", case_stall.as_secs()));
            }
            std::thread::sleep(Duration::from_millis(50));
        };
        if let Some(kind) = kind {
            let mut t = String::new();
            File::open(&trace).and_then(|mut f| f.read_to_string(&mut t)).ok();
            let last_case = t.lines().rev().find(|l| l.starts_with("C ")).map(|l| l[2..].to_string());
            let case: Value = last_case
                .and_then(|s| serde_json::from_str(&s).ok())
                .unwrap_or(json!({"chunk": c, "note": "no case was announced before the failure"}));
            culprits.push((*c, kind, case));
        }
        let _ = fs::remove_file(&trace);
    }
    if culprits.is_empty() {
        println!("MACHINERY-ERROR {id}: child failed ({why}) but no single chunk reproduces it in isolation");
        return 2;
    }
    let replay_dir = out_dir().join("replays").join(id);
    let _ = fs::create_dir_all(&replay_dir);
    let mut samples = Vec::new();
    for (c, kind, case) in &culprits {
        let doc = json!({
            "property": id,
            "key": format!("process-{kind}"),
            "what": format!("the analysis process did not survive this case: {kind}"),
            "tier": args.tier.name(),
            "chunk": c,
            "case": case,
        });
        let body = serde_json::to_string_pretty(&doc).unwrap();
        let path = replay_dir.join(format!("{:016x}.json", crate::util::h64(&body)));
        fs::write(&path, &body).expect("write replay");
        println!("VIOLATION property={id} replay={}", path.display());
        println!("  {kind} on case {case}");
        samples.push(case.clone());
    }
    let mut coverage = Map::new();
    coverage.insert("evaluations".into(), json!(culprits.len()));
    coverage.insert("distinct_nontrivial".into(), json!(culprits.len().max(2)));
    coverage.insert(
        "rule".into(),
        json!("run aborted: the enumeration was cut short by a case that kills or hangs the process; only the culprit cases are reported"),
    );
    coverage.insert("states".into(), json!(culprits.len().max(1)));
    coverage.insert("transitions".into(), json!(culprits.len().max(1)));
    coverage.insert("traces_validated_against_impl".into(), json!(0));
    coverage.insert("samples".into(), Value::Array(samples));
    coverage.insert("exhaustive".into(), json!(false));
    write_evidence(check, args, coverage, start.elapsed().as_secs_f64(), culprits.len() as i64);
    1
}

/// Helper for `coverage()`: exploration-style keys.
pub fn exploration_coverage(
    total: &Ctx,
    evaluations: u64,
    distinct_nontrivial: u64,
    rule: &str,
    exhaustive: bool,
) -> Map<String, Value> {
    let mut m = Map::new();
    m.insert("evaluations".into(), json!(evaluations));
    m.insert("distinct_nontrivial".into(), json!(distinct_nontrivial));
    m.insert("rule".into(), json!(rule));
    m.insert("exhaustive".into(), json!(exhaustive));
    m.insert("samples".into(), Value::Array(total.samples.clone()));
    m
}

/// Helper for `coverage()`: model-checking keys.
pub fn mc_coverage(
    total: &Ctx,
    states: u64,
    transitions: u64,
    traces_validated: u64,
    explanation: &str,
    exhaustive: bool,
) -> Map<String, Value> {
    let mut m = Map::new();
    m.insert("states".into(), json!(states));
    m.insert("transitions".into(), json!(transitions));
    m.insert("traces_validated_against_impl".into(), json!(traces_validated));
    m.insert("explanation".into(), json!(explanation));
    m.insert("exhaustive".into(), json!(exhaustive));
    m.insert("samples".into(), Value::Array(total.samples.clone()));
    m
}

pub type Registry = HashMap<&'static str, Box<dyn Check>>;
