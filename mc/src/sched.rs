//! E4 — deviation-bounded exploration of iteration-order choices through the order-point hooks.
//!
//! A plan is a list of ((site, occurrence), permutation) applied on top of the canonical order. Deviation
//! bound d = number of order points at which a non-identity permutation is applied. Plans are built
//! prefix-replay style: the order points of a run up to (and including) its last deviation are reproduced
//! exactly by any plan that extends it, so (site, occurrence) addressing is stable.

use crate::obs::Plan;
use crate::util::permutations;
use storage_layout_extractor::verif_hooks::{OrderPoint, Perm};

/// Alternatives at a point with `len` elements: all len!-1 permutations if len <= 4, else a fixed menu.
pub fn alternatives(len: usize) -> Vec<Perm> {
    if len < 2 {
        return vec![];
    }
    if len <= 4 {
        return permutations(len)
            .into_iter()
            .skip(1) // identity
            .map(Perm::Explicit)
            .collect();
    }
    vec![
        Perm::Reverse,
        Perm::RotateLeft(1),
        Perm::RotateLeft(len - 1),
        Perm::Swap(0, 1),
        Perm::Swap(len - 2, len - 1),
    ]
}

/// All plans that extend `base` by one more deviation at an order point of `log` that lies after the last
/// deviation already in `base`.
pub fn extend(base: &Plan, log: &[OrderPoint], site_filter: &dyn Fn(&str) -> bool) -> Vec<Plan> {
    // index in the log of the last deviating point of the base plan
    let start = log
        .iter()
        .enumerate()
        .filter(|(_, p)| p.deviated)
        .map(|(i, _)| i + 1)
        .last()
        .unwrap_or(0);
    let mut out = Vec::new();
    for p in &log[start..] {
        if p.len < 2 || !site_filter(p.site) {
            continue;
        }
        for alt in alternatives(p.len) {
            let mut plan = base.clone();
            plan.push(((p.site.to_string(), p.occurrence), alt));
            out.push(plan);
        }
    }
    out
}

pub fn plan_json(plan: &Plan) -> serde_json::Value {
    serde_json::json!(plan
        .iter()
        .map(|((s, o), p)| serde_json::json!({"site": s, "occurrence": o, "perm": perm_json(p)}))
        .collect::<Vec<_>>())
}

pub fn perm_json(p: &Perm) -> serde_json::Value {
    match p {
        Perm::Reverse => serde_json::json!("reverse"),
        Perm::RotateLeft(k) => serde_json::json!({"rotate_left": k}),
        Perm::Swap(a, b) => serde_json::json!({"swap": [a, b]}),
        Perm::Explicit(v) => serde_json::json!({"explicit": v}),
    }
}

pub fn plan_from_json(v: &serde_json::Value) -> Plan {
    v.as_array()
        .map(|a| {
            a.iter()
                .map(|e| {
                    let site = e["site"].as_str().unwrap_or("").to_string();
                    let occ = e["occurrence"].as_u64().unwrap_or(0) as usize;
                    let p = &e["perm"];
                    let perm = if p == "reverse" {
                        Perm::Reverse
                    } else if let Some(k) = p.get("rotate_left") {
                        Perm::RotateLeft(k.as_u64().unwrap() as usize)
                    } else if let Some(s) = p.get("swap") {
                        Perm::Swap(s[0].as_u64().unwrap() as usize, s[1].as_u64().unwrap() as usize)
                    } else {
                        Perm::Explicit(
                            p["explicit"]
                                .as_array()
                                .map(|x| x.iter().map(|i| i.as_u64().unwrap() as usize).collect())
                                .unwrap_or_default(),
                        )
                    };
                    ((site, occ), perm)
                })
                .collect()
        })
        .unwrap_or_default()
}
