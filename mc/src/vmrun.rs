//! Driving the VM stage directly (so that jump-target counters and stored states stay observable).

use crate::obs::{error_kind, with_controller};
use std::collections::BTreeSet;
use storage_layout_extractor as sle;
use sle::disassembly::InstructionStream;
use sle::vm::{Config, VM};
use sle::watchdog::DynWatchdog;

pub struct VmOut {
    pub vm: VM,
    pub exec_ok: bool,
    /// (kind, location) of the errors returned by execute(), sorted
    pub errors: Vec<(String, u32)>,
    /// union over stored states of offsets with visit_count > 0
    pub executed: BTreeSet<u32>,
}

pub enum VmRun {
    Ran(Box<VmOut>),
    DisassemblyError(String),
    ConstructError(String),
    Panic(String),
}

pub fn run_vm(bytes: &[u8], config: Config, watchdog: DynWatchdog) -> VmRun {
    let len = bytes.len() as u32;
    let (r, _ctl) = with_controller(&Vec::new(), || {
        let stream = match InstructionStream::try_from(bytes) {
            Ok(s) => s,
            Err(e) => return Err(VmRun::DisassemblyError(format!("{e}"))),
        };
        let mut vm = match VM::new(stream, config, watchdog) {
            Ok(v) => v,
            Err(e) => return Err(VmRun::ConstructError(format!("{e}"))),
        };
        let res = vm.execute();
        let (exec_ok, errors) = match res {
            Ok(()) => (true, vec![]),
            Err(errs) => {
                let mut l: Vec<(String, u32)> = errs
                    .payloads()
                    .iter()
                    .map(|e| (error_kind(&e.payload), e.location))
                    .collect();
                l.sort();
                (false, l)
            }
        };
        let mut executed = BTreeSet::new();
        for st in vm.stored_states() {
            for ip in 0..len {
                if st.visited_instructions().visit_count(ip).unwrap_or(0) > 0 {
                    executed.insert(ip);
                }
            }
        }
        Ok(VmOut {
            vm,
            exec_ok,
            errors,
            executed,
        })
    });
    match r {
        Ok(Ok(o)) => VmRun::Ran(Box::new(o)),
        Ok(Err(e)) => e,
        Err(p) => VmRun::Panic(p),
    }
}
