//! C03 — the analysis always halts, and execution stays within the configured bounds.

use crate::asm::{assemble, op, Tok};
use crate::c10::ref_kinds;
use crate::infra::*;
use crate::obs::{analyze, vm_config_from_json, vm_config_json, Class, CountingWatchdog, Plan};
use crate::prog::{run_seq_chunk, seq_chunks};
use crate::sched::{extend, plan_from_json, plan_json};
use crate::u256::U;
use crate::util::{hex, unhex};
use crate::vmrun::{run_vm, VmRun};
use serde_json::{json, Map, Value};
use storage_layout_extractor as sle;
use sle::constant::BLOCK_GAS_LIMIT;

// ---------------------------------------------------------------------------------------------------------
// family 1: control flow

#[derive(Clone, Copy, Debug, PartialEq, Eq)]
enum Cf {
    L,
    CallValue,
    P1,
    Pop,
    Dup1,
    Add,
    Stop,
    J(u8),
    Ji(u8),
    JLen,
}

fn cf_alphabet() -> Vec<Cf> {
    let mut v = vec![Cf::L, Cf::CallValue, Cf::P1, Cf::Pop, Cf::Dup1, Cf::Add, Cf::Stop, Cf::JLen];
    for l in 0..3 {
        v.push(Cf::J(l));
        v.push(Cf::Ji(l));
    }
    v
}

fn cf_expand(seq: &[Cf]) -> Option<Vec<u8>> {
    let labels = seq.iter().filter(|t| **t == Cf::L).count();
    let mut toks = Vec::new();
    let mut l = 0u8;
    for t in seq {
        match t {
            Cf::L => {
                toks.push(Tok::Label(l));
                l += 1;
            }
            Cf::CallValue => toks.push(Tok::Op(op::CALLVALUE)),
            Cf::P1 => toks.push(Tok::Push(U::ONE)),
            Cf::Pop => toks.push(Tok::Op(op::POP)),
            Cf::Dup1 => toks.push(Tok::Op(op::DUP1)),
            Cf::Add => toks.push(Tok::Op(op::ADD)),
            Cf::Stop => toks.push(Tok::Op(op::STOP)),
            Cf::JLen => {
                toks.push(Tok::PushLen(0));
                toks.push(Tok::Op(op::JUMP));
            }
            Cf::J(k) => {
                if *k as usize >= labels {
                    return None;
                }
                toks.push(Tok::PushLabel(*k, U::ZERO));
                toks.push(Tok::Op(op::JUMP));
            }
            Cf::Ji(k) => {
                if *k as usize >= labels {
                    return None;
                }
                toks.push(Tok::Op(op::CALLVALUE));
                toks.push(Tok::PushLabel(*k, U::ZERO));
                toks.push(Tok::Op(op::JUMPI));
            }
        }
    }
    Some(assemble(&toks))
}

#[derive(Clone, Copy, Debug)]
pub struct Limits3 {
    pub iterations: usize,
    pub forks: usize,
    pub gas: usize,
    /// permissive error mode (the bounds do not depend on which errors are reported)
    pub permissive: bool,
}

fn grid(full: bool) -> Vec<Limits3> {
    grid_for(full, false)
}

fn grid_for(full: bool, thorough: bool) -> Vec<Limits3> {
    let mut v = Vec::new();
    if thorough && full {
        // the quantifier's upper ends
        v.push(Limits3 {
            iterations: 12,
            forks: 60,
            gas: BLOCK_GAS_LIMIT,
            permissive: false,
        });
        v.push(Limits3 {
            iterations: 12,
            forks: 1,
            gas: 300,
            permissive: false,
        });
    }
    if full {
        for i in [1, 2, 3] {
            for f in [1, 2, 3] {
                for g in [7, 20, 50, 300, BLOCK_GAS_LIMIT] {
                    v.push(Limits3 {
                        iterations: i,
                        forks: f,
                        gas: g,
                        permissive: false,
                    });
                }
            }
        }
    } else {
        v.push(Limits3 {
            iterations: 1,
            forks: 1,
            gas: BLOCK_GAS_LIMIT,
            permissive: false,
        });
        v.push(Limits3 {
            iterations: 2,
            forks: 3,
            gas: 300,
            permissive: false,
        });
        v.push(Limits3 {
            iterations: 3,
            forks: 2,
            gas: BLOCK_GAS_LIMIT,
            permissive: false,
        });
    }
    // the same bounds in permissive error mode, for the tightest and one middling setting
    let extra: Vec<Limits3> = v
        .iter()
        .filter(|l| (l.iterations, l.forks) == (1, 1) || (l.iterations, l.forks, l.gas) == (2, 3, 300))
        .map(|l| Limits3 { permissive: true, ..*l })
        .collect();
    v.extend(extra);
    v
}

fn config(l: &Limits3) -> sle::vm::Config {
    sle::vm::Config::default()
        .with_max_iterations_per_opcode(l.iterations)
        .with_max_forks_per_fork_target(l.forks)
        .with_gas_limit(l.gas)
        .with_permissive_errors(l.permissive)
}

pub struct Verdict {
    pub key: String,
    pub what: String,
}

pub struct Fired {
    pub iteration: bool,
    pub fork: bool,
    pub gas: bool,
    pub threads: usize,
}

/// Oracle items (1)-(5) on the VM stage.
pub fn check_vm(code: &[u8], lim: &Limits3) -> Result<Option<Fired>, Verdict> {
    let kinds = ref_kinds(code);
    let n = code.len();
    let jumpdests: Vec<u32> = (0..n).filter(|i| kinds[*i] && code[*i] == 0x5b).map(|i| i as u32).collect();
    let max_threads = 1 + lim.forks * jumpdests.len();
    // generous analytic step budget: every thread may execute every offset (iterations + 1) times
    let budget = (4 * max_threads * n * (lim.iterations + 1) + 100) as u64;
    let w = CountingWatchdog::new(1, Some(budget));
    let out = match run_vm(code, config(lim), w.clone()) {
        VmRun::Ran(o) => o,
        _ => return Ok(None),
    };
    if out.errors.iter().any(|(k, _)| k == "StoppedByWatchdog") {
        return Err(Verdict {
            key: "execution-over-budget".into(),
            what: format!("execution needed more than {budget} steps (limits {lim:?})"),
        });
    }
    let states = out.vm.stored_states();
    let mut fired = Fired {
        iteration: false,
        fork: false,
        gas: out.errors.iter().any(|(k, _)| k == "GasLimitExceeded"),
        threads: states.len(),
    };
    // (2) visit bound
    for st in states {
        for ip in 0..n as u32 {
            let c = st.visited_instructions().visit_count(ip).unwrap_or(0);
            if c > lim.iterations {
                return Err(Verdict {
                    key: format!(
                        "visit-bound:{}",
                        if code[ip as usize] == 0x5b && kinds[ip as usize] { "JUMPDEST" } else { "other" }
                    ),
                    what: format!("offset {ip} was executed {c} times by one thread with an iteration limit of {}", lim.iterations),
                });
            }
            if c == lim.iterations {
                fired.iteration = true;
            }
        }
    }
    // (3) fork bound
    for d in &jumpdests {
        let c = out.vm.jump_targets().cond_jump_count(*d).unwrap_or(0);
        if c > lim.forks {
            return Err(Verdict {
                key: "fork-bound".into(),
                what: format!("JUMPDEST {d} was forked to {c} times with a fork limit of {}", lim.forks),
            });
        }
        if c == lim.forks {
            fired.fork = true;
        }
    }
    // (4) thread bound
    if states.len() > max_threads {
        return Err(Verdict {
            key: "thread-bound".into(),
            what: format!("{} threads were created, the bound is 1 + {} x {} = {max_threads}", states.len(), lim.forks, jumpdests.len()),
        });
    }
    // (5) gas: cumulative minimum gas of a thread's history may exceed the limit by at most one instruction
    let thread = out.vm.instructions().new_thread(0).ok();
    if let Some(thread) = thread {
        let gas_of = |ip: u32| thread.instruction(ip).map(|o| o.min_gas_cost()).unwrap_or(0);
        for st in states {
            let total: usize = (0..n as u32)
                .map(|ip| st.visited_instructions().visit_count(ip).unwrap_or(0) * gas_of(ip))
                .sum();
            // the instruction that took the thread over the limit is one the thread (or the history it inherited) executed
            let max_single = (0..n as u32)
                .filter(|ip| st.visited_instructions().visit_count(*ip).unwrap_or(0) > 0)
                .map(gas_of)
                .max()
                .unwrap_or(0);
            if total > lim.gas + max_single {
                return Err(Verdict {
                    key: "gas-bound".into(),
                    what: format!("a thread consumed at least {total} gas with a gas limit of {} (largest single cost {max_single})", lim.gas),
                });
            }
        }
    }
    Ok(Some(fired))
}

/// Oracle item (6): the whole pipeline finishes under a step budget, for one plan.
pub fn check_halts(code: &[u8], cfg: &sle::vm::Config, plan: &Plan, budget: u64) -> Result<crate::obs::Obs, Verdict> {
    let w = CountingWatchdog::with_deadline(1, Some(budget), 60);
    let o = analyze(code, cfg.clone(), plan, w.clone());
    if o.class == Class::ErrStopped {
        // which stage was still running?
        let stage = if o.errors.iter().any(|(k, _)| k == "StoppedByWatchdog") { "pipeline" } else { "?" };
        return Err(Verdict {
            key: format!("non-terminating:{stage}"),
            what: format!("the analysis was still running after {budget} polls of a poll-every-iteration watchdog"),
        });
    }
    Ok(o)
}

// ---------------------------------------------------------------------------------------------------------
// family 2: storage read-mask-write patterns that create cyclic type evidence

#[derive(Clone, Copy, Debug, PartialEq, Eq)]
enum Cy {
    Sload(u8),
    Sstore(u8),
    MaskFF,
    Mask160,
    MaskFF00,
    Not,
    Or,
    And,
    Shl8,
    Dup1,
    Dup2,
    Swap1,
    Cdl0,
    UseAddress,
    UseSigned,
    UseBool,
}

fn cy_alphabet(small: bool) -> Vec<Cy> {
    if small {
        vec![
            Cy::Sload(0),
            Cy::Sstore(0),
            Cy::MaskFF,
            Cy::Mask160,
            Cy::UseSigned,
            Cy::UseAddress,
            Cy::UseBool,
            Cy::Dup1,
            Cy::Or,
            Cy::Not,
        ]
    } else {
        vec![
            Cy::Sload(0),
            Cy::Sload(1),
            Cy::Sstore(0),
            Cy::Sstore(1),
            Cy::MaskFF,
            Cy::Mask160,
            Cy::MaskFF00,
            Cy::Not,
            Cy::Or,
            Cy::And,
            Cy::Shl8,
            Cy::Dup1,
            Cy::Dup2,
            Cy::Swap1,
            Cy::Cdl0,
            Cy::UseAddress,
            Cy::UseSigned,
            Cy::UseBool,
        ]
    }
}

/// (pops, pushes) for stack-aware pruning.
fn cy_arity(t: Cy) -> (usize, usize) {
    match t {
        Cy::Sload(_) | Cy::Cdl0 => (0, 1),
        Cy::Sstore(_) => (1, 0),
        Cy::MaskFF | Cy::Mask160 | Cy::MaskFF00 | Cy::Not | Cy::Shl8 | Cy::UseBool => (1, 1),
        Cy::Or | Cy::And => (2, 1),
        Cy::Dup1 => (1, 2),
        Cy::Dup2 => (2, 3),
        Cy::Swap1 => (2, 2),
        Cy::UseAddress | Cy::UseSigned => (1, 1),
    }
}

fn cy_expand(seq: &[Cy]) -> Vec<u8> {
    let mut t = Vec::new();
    for x in seq {
        match x {
            Cy::Sload(k) => t.extend([Tok::Push(U::from_u64(*k as u64)), Tok::Op(op::SLOAD)]),
            Cy::Sstore(k) => t.extend([Tok::Push(U::from_u64(*k as u64)), Tok::Op(op::SSTORE)]),
            Cy::MaskFF => t.extend([Tok::Push(U::from_u64(0xff)), Tok::Op(op::AND)]),
            Cy::Mask160 => t.extend([Tok::Push(U::pow2(160).sub(U::ONE)), Tok::Op(op::AND)]),
            Cy::MaskFF00 => t.extend([Tok::Push(U::from_u64(0xff00)), Tok::Op(op::AND)]),
            Cy::Not => t.push(Tok::Op(op::NOT)),
            Cy::Or => t.push(Tok::Op(op::OR)),
            Cy::And => t.push(Tok::Op(op::AND)),
            Cy::Shl8 => t.extend([Tok::Push(U::from_u64(8)), Tok::Op(op::SHL)]),
            Cy::Dup1 => t.push(Tok::Op(op::DUP1)),
            Cy::Dup2 => t.push(Tok::Op(op::DUP2)),
            Cy::Swap1 => t.push(Tok::Op(op::SWAP1)),
            Cy::Cdl0 => t.extend([Tok::Op(op::PUSH0), Tok::Op(op::CALLDATALOAD)]),
            Cy::UseAddress => t.extend([Tok::Op(op::DUP1), Tok::Op(op::BALANCE), Tok::Op(op::POP)]),
            Cy::UseSigned => t.extend([Tok::Op(op::DUP1), Tok::Op(op::PUSH0), Tok::Op(op::SLT), Tok::Op(op::POP)]),
            Cy::UseBool => t.push(Tok::Op(op::ISZERO)),
        }
    }
    assemble(&t)
}

#[derive(Clone, Debug)]
enum Chunk {
    Cf(usize),
    Cy(usize, bool),
    /// programs whose slot types refer to themselves or to each other (slice of 4)
    Recursive(usize),
    /// one pipeline template with boundary constants in its two holes
    Template(usize),
    /// cyclic typing evidence of every period up to 60, driven directly on the unifier
    Rings,
    /// chains in which one opcode is fed its own result again and again
    Chains,
}

/// Value-producing opcodes with the number of operands they take.
const CHAIN_OPCODES: [(u8, usize); 48] = [
    (0x01, 2), (0x02, 2), (0x03, 2), (0x04, 2), (0x05, 2), (0x06, 2), (0x07, 2), (0x08, 3), (0x09, 3), (0x0a, 2), (0x0b, 2),
    (0x10, 2), (0x11, 2), (0x12, 2), (0x13, 2), (0x14, 2), (0x15, 1), (0x16, 2), (0x17, 2), (0x18, 2), (0x19, 1), (0x1a, 2),
    (0x1b, 2), (0x1c, 2), (0x1d, 2), (0x20, 2), (0x31, 1), (0x35, 1), (0x3b, 1), (0x3f, 1), (0x40, 1), (0x51, 1), (0x54, 1),
    (0xf0, 3), (0xf5, 4), (0xf1, 7), (0xf2, 7), (0xf4, 6), (0xfa, 6),
    // the same call family again with the result fed to every operand (listed twice on purpose: see `chain_programs`)
    (0xf0, 3), (0xf5, 4), (0xf1, 7), (0xf2, 7), (0xf4, 6), (0xfa, 6), (0x20, 2), (0x08, 3), (0x09, 3),
];

/// `CALLVALUE (feed op){n} STOP` where `feed` duplicates the running value into the chosen operand positions (the others
/// are PUSH0): one program per opcode and per non-empty choice "all positions" or "one position".
fn chain_programs(n: usize) -> Vec<(String, Vec<u8>)> {
    let mut v = Vec::new();
    let mut seen = std::collections::BTreeSet::new();
    for (opc, arity) in CHAIN_OPCODES {
        let mut choices: Vec<Vec<bool>> = vec![vec![true; arity]];
        for p in 0..arity {
            choices.push((0..arity).map(|i| i == p).collect());
        }
        if arity >= 2 {
            // the running value in two positions is what doubles the size of the result at every step
            for p in 0..arity {
                for q in p + 1..arity {
                    choices.push((0..arity).map(|i| i == p || i == q).collect());
                }
            }
        }
        for ch in choices {
            if !seen.insert((opc, ch.clone())) {
                continue;
            }
            // stack before a step: [x]; operands are pushed deepest first (operand arity-1 first), x stays at the bottom
            // and is removed after the opcode with SWAP1 POP
            let mut code = vec![0x34u8];
            for _ in 0..n {
                for i in (0..arity).rev() {
                    let pushed = arity - 1 - i; // items above x so far
                    if ch[i] {
                        code.push(0x80 + pushed as u8); // DUP(pushed+1) reaches x
                    } else {
                        code.push(0x5f);
                    }
                }
                code.push(opc);
                code.extend([0x90, 0x50]); // SWAP1 POP: drop the old x, keep the result
            }
            code.push(0x00);
            let which: String = ch.iter().map(|b| if *b { 'x' } else { '0' }).collect();
            v.push((format!("0x{opc:02x} fed its own result at [{which}] {n} times"), code));
        }
    }
    v
}

fn plan(tier: Tier) -> Vec<Chunk> {
    let mut v = Vec::new();
    for c in 0..seq_chunks(cf_alphabet().len()) {
        v.push(Chunk::Cf(c));
    }
    for c in 0..seq_chunks(cy_alphabet(true).len()) {
        v.push(Chunk::Cy(c, true));
    }
    if tier.thorough() {
        for c in 0..seq_chunks(cy_alphabet(false).len()) {
            v.push(Chunk::Cy(c, false));
        }
    }
    for i in 0..4 {
        v.push(Chunk::Recursive(i));
    }
    for t in 0..crate::templates::TEMPLATES {
        v.push(Chunk::Template(t));
    }
    v.push(Chunk::Rings);
    v.push(Chunk::Chains);
    v
}

const TC_BUDGET: u64 = 20_000;

/// Bytes the subject asks the allocator for during one whole analysis of `code` (None: it did not halt).
fn work_of(code: &[u8]) -> Result<u64, Verdict> {
    let before = crate::alloc_count::bytes();
    // the poll budget of the short programs, scaled with the length of the chain (a step is 6 to 12 bytes)
    let budget = TC_BUDGET * (1 + code.len() as u64 / 30);
    let r = check_halts(code, &sle::vm::Config::default().with_permissive_errors(true), &Vec::new(), budget);
    let used = crate::alloc_count::bytes() - before;
    r.map(|_| used)
}

fn work_multiplies(longer: u64, shorter: u64) -> bool {
    longer > 8 * shorter + (2 << 20)
}

pub struct C03;

impl Check for C03 {
    fn id(&self) -> &'static str {
        "C03"
    }
    fn level(&self) -> &'static str {
        "exploration"
    }
    fn chunks(&self, tier: Tier) -> usize {
        plan(tier).len()
    }
    fn run_chunk(&self, tier: Tier, chunk: usize, ctx: &mut Ctx) {
        match plan(tier)[chunk].clone() {
            Chunk::Cf(c) => {
                let alpha = cf_alphabet();
                let max = if tier.thorough() { 7 } else { 6 };
                run_seq_chunk(alpha.len(), max, c, &mut |ix| {
                    let seq: Vec<Cf> = ix.iter().map(|i| alpha[*i]).collect();
                    let Some(code) = cf_expand(&seq) else { return true };
                    // full grid up to length 4 (5 thorough), three settings beyond
                    let full = ix.len() <= if tier.thorough() { 5 } else { 4 };
                    for lim in grid_for(full, tier.thorough()) {
                        ctx.case(|| json!({"bytes": hex(&code), "limits": format!("{lim:?}")}));
                        ctx.count("vm_runs", 1);
                        match check_vm(&code, &lim) {
                            Ok(Some(f)) => {
                                if f.iteration || f.fork || f.gas {
                                    ctx.count("runs_where_a_limit_fired", 1);
                                    ctx.distinct("nontrivial", crate::util::h64(&(&code, lim.iterations, lim.forks, lim.gas, lim.permissive)));
                                }
                                if f.iteration {
                                    ctx.count("iteration_limit_fired", 1);
                                }
                                if f.fork {
                                    ctx.count("fork_limit_fired", 1);
                                }
                                if f.gas {
                                    ctx.count("gas_limit_fired", 1);
                                }
                                if f.fork && f.iteration {
                                    ctx.sample(|| json!({"tokens": format!("{seq:?}"), "bytes": hex(&code), "limits": format!("{lim:?}"), "threads": f.threads, "verdict": "all bounds respected"}));
                                }
                            }
                            Ok(None) => ctx.count("skipped_other_property", 1),
                            Err(v) => ctx.violation(
                                v.key,
                                format!("{} [{seq:?} = {}]", v.what, hex(&code)),
                                json!({"bytes": hex(&code), "iterations": lim.iterations, "forks": lim.forks, "gas": lim.gas, "permissive": lim.permissive}),
                            ),
                        }
                    }
                    // (6) on the same programs with the default configuration
                    if ix.len() <= 5 {
                        ctx.count("pipeline_runs", 1);
                        if let Err(v) = check_halts(&code, &sle::vm::Config::default(), &Vec::new(), TC_BUDGET) {
                            ctx.violation(v.key, format!("{} [{}]", v.what, hex(&code)), json!({"bytes": hex(&code), "plan": []}));
                        }
                    }
                    true
                });
            }
            Chunk::Chains => {
                // the work of one analysis (bytes the subject asks the allocator for, which does not depend on the machine's
                // load) must not multiply when the chain gets six steps longer; a longer chain is only run when the shorter
                // one passed, so a subject whose values double at every step is stopped while they are still small
                let lengths: &[usize] = if tier.thorough() { &[6, 12, 18, 24, 48, 96] } else { &[6, 12, 18, 24] };
                let base: Vec<(String, Vec<u8>)> = chain_programs(lengths[0]);
                for (i, (desc0, _)) in base.iter().enumerate() {
                    let mut prev: Option<(u64, Vec<u8>)> = None;
                    for n in lengths {
                        let (desc, code) = chain_programs(*n).swap_remove(i);
                        let shorter = prev.as_ref().map(|(_, c)| hex(c));
                        ctx.case(|| json!({"bytes": hex(&code), "plan": [], "shorter": shorter}));
                        ctx.count("pipeline_runs", 1);
                        ctx.count("chain_programs", 1);
                        match work_of(&code) {
                            Err(v) => {
                                ctx.violation(v.key, format!("{} [{desc}]", v.what), json!({"bytes": hex(&code), "plan": []}));
                                break;
                            }
                            Ok(used) => {
                                if let Some((p, _)) = &prev {
                                    if work_multiplies(used, *p) {
                                        ctx.violation(
                                            "work-multiplies-with-length".to_string(),
                                            format!("the analysis asked for {used} bytes of memory in all where the next shorter chain of the same kind asked for {p} [{desc}; first: {desc0}]"),
                                            json!({"bytes": hex(&code), "plan": [], "shorter": shorter}),
                                        );
                                        break;
                                    }
                                }
                                prev = Some((used, code));
                            }
                        }
                    }
                }
            }
            Chunk::Rings => {
                for (n, set, desc) in crate::c14::ring_sets() {
                    ctx.case(|| json!({"judgements": crate::unif::set_json(&set), "n": n, "plan": []}));
                    ctx.count("pipeline_runs", 1);
                    ctx.count("ring_judgement_sets", 1);
                    let (out, _) = crate::unif::run(n, &set, &Vec::new());
                    match out {
                        crate::unif::Outcome::OverBudget => ctx.violation(
                            "unification-over-budget:rings",
                            format!("unification of cyclic evidence was still running after {} polls [{desc}]", crate::unif::BUDGET),
                            json!({"judgements": crate::unif::set_json(&set), "n": n, "plan": []}),
                        ),
                        crate::unif::Outcome::Panic(p) => ctx.violation(
                            format!("panic:{}", panic_site(&p)),
                            format!("unification panicked: {p} [{desc}]"),
                            json!({"judgements": crate::unif::set_json(&set), "n": n, "plan": []}),
                        ),
                        _ => {}
                    }
                }
            }
            Chunk::Template(t) => {
                // loops over 256-bit constants inside the lifting passes (power-of-two tests, mask scans, span arithmetic)
                // must stop for every constant: an unpolled loop that does not is attributed by the supervisor's stall detection
                let b = crate::u256::boundary_set(tier.thorough());
                let b2: Vec<_> = b.iter().copied().step_by(if tier.thorough() { 2 } else { 3 }).collect();
                for c1 in &b {
                    for c2 in &b2 {
                        let code = crate::templates::template(t, *c1, *c2);
                        ctx.case(|| json!({"bytes": hex(&code), "plan": []}));
                        ctx.count("pipeline_runs", 1);
                        ctx.count("template_programs", 1);
                        if let Err(v) = check_halts(&code, &sle::vm::Config::default(), &Vec::new(), TC_BUDGET) {
                            ctx.violation(v.key, format!("{} [{}]", v.what, hex(&code)), json!({"bytes": hex(&code), "plan": []}));
                        }
                    }
                }
            }
            Chunk::Recursive(slice) => {
                // rendering a slot type that contains itself must stop (a crash or a hang here is attributed by the supervisor)
                for (i, code) in crate::c02::recursive_type_programs().into_iter().enumerate() {
                    if i % 4 != slice {
                        continue;
                    }
                    ctx.case(|| json!({"bytes": hex(&code), "plan": []}));
                    ctx.count("pipeline_runs", 1);
                    ctx.count("recursive_type_programs", 1);
                    if let Err(v) = check_halts(&code, &sle::vm::Config::default(), &Vec::new(), TC_BUDGET) {
                        ctx.violation(v.key, format!("{} [{}]", v.what, hex(&code)), json!({"bytes": hex(&code), "plan": []}));
                    }
                }
            }
            Chunk::Cy(c, small) => {
                let alpha = cy_alphabet(small);
                let max = if small {
                    if tier.thorough() {
                        7
                    } else {
                        6
                    }
                } else {
                    5
                };
                run_seq_chunk(alpha.len(), max, c, &mut |ix| {
                    let seq: Vec<Cy> = ix.iter().map(|i| alpha[*i]).collect();
                    // stack-aware pruning: a sequence that underflows stays broken when extended
                    let mut depth = 0usize;
                    for t in &seq {
                        let (pops, pushes) = cy_arity(*t);
                        if depth < pops {
                            return false;
                        }
                        depth = depth - pops + pushes;
                    }
                    // only programs that both read and write storage can create cyclic evidence
                    let reads = seq.iter().any(|t| matches!(t, Cy::Sload(_)));
                    let writes = seq.iter().any(|t| matches!(t, Cy::Sstore(_)));
                    if !(reads && writes) {
                        return true;
                    }
                    let code = cy_expand(&seq);
                    let cfg = sle::vm::Config::default();
                    ctx.case(|| json!({"bytes": hex(&code), "plan": []}));
                    ctx.count("pipeline_runs", 1);
                    ctx.count("cyclic_family_programs", 1);
                    let base = match check_halts(&code, &cfg, &Vec::new(), TC_BUDGET) {
                        Ok(o) => o,
                        Err(v) => {
                            ctx.violation(v.key, format!("{} [{seq:?} = {}]", v.what, hex(&code)), json!({"bytes": hex(&code), "plan": []}));
                            return true;
                        }
                    };
                    ctx.distinct("nontrivial", crate::util::h64(&code));
                    // termination depends on the fold order: every single deviation at the order points of unification
                    let plans = extend(&Vec::new(), &base.log, &|s| s.starts_with("unify.") || s == "vm.storage.export");
                    for pl in plans {
                        ctx.case(|| json!({"bytes": hex(&code), "plan": plan_json(&pl)}));
                        ctx.count("pipeline_runs", 1);
                        ctx.count("deviating_schedules", 1);
                        if let Err(v) = check_halts(&code, &cfg, &pl, TC_BUDGET) {
                            ctx.violation(
                                v.key,
                                format!("{} under plan {} [{seq:?} = {}]", v.what, plan_json(&pl), hex(&code)),
                                json!({"bytes": hex(&code), "plan": plan_json(&pl)}),
                            );
                            break;
                        }
                    }
                    ctx.sample(|| json!({"tokens": format!("{seq:?}"), "bytes": hex(&code), "verdict": "halts under the canonical order and every single deviation"}));
                    true
                });
            }
        }
    }
    fn coverage(&self, tier: Tier, total: &Ctx) -> Map<String, Value> {
        let rule = format!(
            "(a) all token sequences <= {} over 14 control-flow tokens (JUMPDEST, CALLVALUE, PUSH 1, POP, DUP1, ADD, STOP, JUMP / \
             CALLVALUE-conditioned JUMPI to each of 3 labels, JUMP out of range): tight and nested loops, self-jumps, stack-growing \
             loops, fork bombs; crossed with the full grid iterations {{1,2,3}} x forks {{1,2,3}} x gas {{7,20,50,300,block}} (plus the settings with limits (1,1) and (2,3,300) in permissive error mode) up to length {} \
             and 3 settings beyond. The VM is driven directly: finishes within an analytic step budget, per-state visit counts <= \
             iteration limit, per-target fork counts <= fork limit, states <= 1 + forks x jumpdests, cumulative minimum gas <= limit + \
             one instruction. (b) all stack-safe read-mask-write sequences <= {} over 10 tokens{}: analyze() must finish within {} \
             polls under the canonical order and under every single deviation at the unification / storage-export order points; (c) 280 programs whose slot types refer to themselves or to each other: analyze() must finish (rendering a recursive type must stop); (d) 16 pipeline templates (mask / shift / divide / multiply packing, hashing, exp / sar / signextend / byte) with boundary constants (0, 1, 2^k, 2^k+-1, 2^255+1, 2^256-1, ...) in their two holes: analyze() must finish; (e) the ring family of C14 (cyclic typing evidence of every period up to 60) driven on the unifier: it must finish within its poll budget; (f) self-feeding chains: every value-producing opcode (39, including SHA3, the CREATE and CALL families) fed its own result in all, each one and each two of its operand positions 6, 12, 18, 24 times in a row (thorough: 48 and 96 too): analyze() must finish, and the bytes it asks the allocator for must not multiply (more than 8x + 2 MiB) from one length to the next — a longer chain runs only after the shorter one passed; the poll budget grows with the length of the chain. \
             non-trivial = (program, limits) where some limit actually fired, or a cyclic-family program; distinct by content",
            if tier.thorough() { 7 } else { 6 },
            if tier.thorough() { 5 } else { 4 },
            if tier.thorough() { 7 } else { 6 },
            if tier.thorough() { " and <= 5 over 18 tokens" } else { "" },
            TC_BUDGET
        );
        exploration_coverage(
            total,
            total.get("vm_runs") + total.get("pipeline_runs"),
            total.distinct_count("nontrivial"),
            &rule,
            true,
        )
    }
    fn assumptions(&self, _tier: Tier) -> Vec<String> {
        vec![
            "whether a limit is enforced one step early, thread order and thread count below the bound are don't-cares".into(),
            "limits above 3 (the quantifier's 12 / 60) are not crossed with the program space; scale effects are out of reach".into(),
            "the work of one analysis is measured as bytes requested from the harness's counting allocator on the analysing thread, which does not depend on the machine's load".into(),
            "halting is decided by a poll-every-iteration counting watchdog used as a step budget; loops that never poll are caught by the supervisor's wall-clock stall detection".into(),
        ]
    }
    fn replay(&self, replay: &Value) -> bool {
        let c = &replay["case"];
        if c.get("judgements").is_some() {
            let set = crate::unif::set_from_json(&c["judgements"]);
            let n = c["n"].as_u64().unwrap_or(3) as usize;
            println!("judgements: {}", crate::unif::show_set(&set));
            let (out, _) = crate::unif::run(n, &set, &Vec::new());
            println!("outcome: {}", match &out { crate::unif::Outcome::OverBudget => "still running at the poll budget".to_string(), crate::unif::Outcome::Panic(p) => format!("panic: {p}"), _ => "finished".to_string() });
            return matches!(out, crate::unif::Outcome::OverBudget | crate::unif::Outcome::Panic(_));
        }
        let code = unhex(c["bytes"].as_str().unwrap());
        println!("code: {}", hex(&code));
        if let Some(sh) = c.get("shorter").and_then(|s| s.as_str()) {
            let short = unhex(sh);
            println!("the next shorter chain of the same kind: {}", hex(&short));
            return match (work_of(&short), work_of(&code)) {
                (Ok(a), Ok(b)) => {
                    println!("observed: {a} bytes asked for by the shorter chain, {b} by the longer");
                    work_multiplies(b, a)
                }
                (Err(v), _) | (_, Err(v)) => {
                    println!("observed: {}: {}", v.key, v.what);
                    true
                }
            };
        }
        if c.get("iterations").is_some() {
            let lim = Limits3 {
                iterations: c["iterations"].as_u64().unwrap() as usize,
                forks: c["forks"].as_u64().unwrap() as usize,
                gas: c["gas"].as_u64().unwrap() as usize,
                permissive: c["permissive"].as_bool().unwrap_or(false),
            };
            match check_vm(&code, &lim) {
                Err(v) => {
                    println!("observed: {}: {}", v.key, v.what);
                    true
                }
                Ok(_) => {
                    println!("observed: all bounds respected under {lim:?}");
                    false
                }
            }
        } else {
            let plan = plan_from_json(&c["plan"]);
            let cfg = c.get("config").map(vm_config_from_json).unwrap_or_default();
            let _ = vm_config_json(&cfg);
            match check_halts(&code, &cfg, &plan, TC_BUDGET) {
                Err(v) => {
                    println!("observed: {}: {}", v.key, v.what);
                    true
                }
                Ok(o) => {
                    println!("observed: halts with {}", o.json());
                    false
                }
            }
        }
    }
}
