//! C16 — combining typing evidence is independent of order and grouping (all ordered pairs and triples of the
//! stated finite domain through the real `unification::merge`).

use crate::infra::*;
use crate::util::to_ethnum;
use crate::u256::U;
use serde_json::{json, Map, Value};
use storage_layout_extractor as sle;
use sle::tc::expression::{TypeExpression as TE, WordUse};
use sle::tc::state::type_variable::TypeVariable;
use sle::tc::state::TypeCheckerState;
use sle::tc::unification::{merge, Equality};
use sle::vm::value::{Provenance, RSV};

pub struct Dom {
    pub state: TypeCheckerState,
    pub v: [TypeVariable; 2],
    pub parent: TypeVariable,
    pub elems: Vec<TE>,
}

pub fn domain() -> Dom {
    let mut state = TypeCheckerState::empty();
    let mut fresh = || state_register(&mut state);
    fn state_register(s: &mut TypeCheckerState) -> TypeVariable {
        s.register(RSV::new_value(0, Provenance::Synthetic))
    }
    let v0 = fresh();
    let v1 = fresh();
    let parent = fresh();
    let v = [v0, v1];
    let mut elems = vec![TE::Any, TE::Bytes];
    for usage in [WordUse::Bytes, WordUse::Numeric, WordUse::UnsignedNumeric, WordUse::SignedNumeric] {
        for w in [None, Some(8), Some(32), Some(160), Some(192), Some(256)] {
            elems.push(TE::word(w, usage));
        }
    }
    elems.extend([TE::bool(), TE::address(), TE::selector(), TE::function()]);
    for a in v {
        for b in v {
            elems.push(TE::mapping(a, b));
        }
    }
    for a in v {
        elems.push(TE::dyn_array(a));
    }
    for a in v {
        for len in [1u64, 2] {
            elems.push(TE::FixedArray {
                element: a,
                length: to_ethnum(U::from_u64(len)),
            });
        }
    }
    elems.push(TE::conflict(TE::bool(), TE::address(), "seed conflict"));
    Dom {
        state,
        v,
        parent,
        elems,
    }
}

/// Normal form of an outcome: the expression with conflicts collapsed and variables replaced by the smallest
/// member of their class under the emitted equalities, plus that partition.
#[derive(Clone, Debug, PartialEq, Eq)]
pub struct Nf {
    pub conflict: bool,
    pub expr: String,
    pub joined: bool, // v0 ~ v1
    pub extra: String, // anything outside the domain's vocabulary (judgements, new variables) rendered verbatim
}

pub struct Outcome {
    pub expr: TE,
    pub eqs: Vec<Equality>,
    pub extra: Vec<String>,
}

fn do_merge(d: &mut Dom, a: TE, b: TE) -> Result<Outcome, String> {
    let parent = d.parent;
    let state = &mut d.state;
    let m = guarded(move || merge(a, b, parent, state))?;
    let mut extra = Vec::new();
    for j in &m.judgements {
        extra.push(format!("{j:?}"));
    }
    for t in &m.ty_vars {
        extra.push(format!("new {t:?}"));
    }
    Ok(Outcome {
        expr: m.expression,
        eqs: m.equalities,
        extra,
    })
}

fn nf(d: &Dom, expr: &TE, eqs: &[Equality], extra: &[String]) -> Nf {
    let v = d.v;
    let mut joined = false;
    for e in eqs {
        let l = v.iter().position(|x| *x == e.left);
        let r = v.iter().position(|x| *x == e.right);
        if let (Some(l), Some(r)) = (l, r) {
            if l != r {
                joined = true;
            }
        }
    }
    let name = |t: &TypeVariable| -> String {
        match v.iter().position(|x| x == t) {
            Some(i) => {
                if joined {
                    "v0".to_string()
                } else {
                    format!("v{i}")
                }
            }
            None => format!("{t:?}"),
        }
    };
    let (conflict, s) = match expr {
        TE::Conflict { .. } => (true, "Conflict".to_string()),
        TE::Any => (false, "Any".into()),
        TE::Bytes => (false, "Bytes".into()),
        TE::Word { width, usage } => (false, format!("Word({width:?},{usage:?})")),
        TE::Mapping { key, value } => (false, format!("Mapping({},{})", name(key), name(value))),
        TE::DynamicArray { element } => (false, format!("DynArray({})", name(element))),
        TE::FixedArray { element, length } => (false, format!("FixedArray({},{length})", name(element))),
        other => (false, format!("{other:?}")),
    };
    let mut extra: Vec<String> = extra.to_vec();
    extra.sort();
    Nf {
        conflict,
        expr: s,
        joined,
        extra: extra.join(";"),
    }
}

fn same(a: &Nf, b: &Nf) -> bool {
    if a.conflict || b.conflict {
        // only conflict-ness is compared when the evidence is contradictory
        return a.conflict && b.conflict;
    }
    a == b
}

pub fn short(e: &TE) -> String {
    match e {
        TE::Conflict { .. } => "Conflict".into(),
        TE::Word { width, usage } => format!("Word({},{usage:?})", width.map(|w| w.to_string()).unwrap_or("?".into())),
        TE::Mapping { key, value } => format!("Mapping({key},{value})"),
        TE::DynamicArray { element } => format!("DynArray({element})"),
        TE::FixedArray { element, length } => format!("FixedArray({element},{length})"),
        other => format!("{other}"),
    }
}

fn kind(e: &TE) -> &'static str {
    match e {
        TE::Any => "Any",
        TE::Bytes => "Bytes",
        TE::Word { .. } => "Word",
        TE::Mapping { .. } => "Mapping",
        TE::DynamicArray { .. } => "DynArray",
        TE::FixedArray { .. } => "FixedArray",
        TE::Conflict { .. } => "Conflict",
        _ => "Other",
    }
}

pub struct PairResult {
    pub ab: Result<Nf, String>,
    pub ba: Result<Nf, String>,
}

pub fn pair(d: &mut Dom, i: usize, j: usize) -> PairResult {
    let (a, b) = (d.elems[i].clone(), d.elems[j].clone());
    let ab = do_merge(d, a.clone(), b.clone()).map(|o| nf(d, &o.expr, &o.eqs, &o.extra));
    let ba = do_merge(d, b, a).map(|o| nf(d, &o.expr, &o.eqs, &o.extra));
    PairResult { ab, ba }
}

pub fn triple(d: &mut Dom, i: usize, j: usize, k: usize) -> (Result<Nf, String>, Result<Nf, String>) {
    let (a, b, c) = (d.elems[i].clone(), d.elems[j].clone(), d.elems[k].clone());
    // (a . b) . c
    let left = (|| {
        let ab = do_merge(d, a.clone(), b.clone())?;
        let abc = do_merge(d, ab.expr.clone(), c.clone())?;
        let mut eqs = ab.eqs.clone();
        eqs.extend(abc.eqs.iter().copied());
        let mut extra = ab.extra.clone();
        extra.extend(abc.extra.iter().cloned());
        Ok(nf(d, &abc.expr, &eqs, &extra))
    })();
    // a . (b . c)
    let right = (|| {
        let bc = do_merge(d, b.clone(), c.clone())?;
        let abc = do_merge(d, a.clone(), bc.expr.clone())?;
        let mut eqs = bc.eqs.clone();
        eqs.extend(abc.eqs.iter().copied());
        let mut extra = bc.extra.clone();
        extra.extend(abc.extra.iter().cloned());
        Ok(nf(d, &abc.expr, &eqs, &extra))
    })();
    (left, right)
}

/// Class key of a failing triple: root-cause family plus the ordered triple itself.
fn triple_key(d: &mut Dom, i: usize, j: usize, k: usize) -> String {
    let e: Vec<TE> = [i, j, k].iter().map(|x| d.elems[*x].clone()).collect();
    let is_word = |t: &TE| matches!(t, TE::Word { .. });
    let absorbers: Vec<&TE> = e.iter().filter(|t| matches!(t, TE::Bytes | TE::DynamicArray { .. })).collect();
    let words: Vec<&TE> = e.iter().filter(|t| is_word(t)).collect();
    let mut family = "other".to_string();
    if absorbers.len() == 1 && words.len() == 2 {
        let x = absorbers[0].clone();
        let (w1, w2) = (words[0].clone(), words[1].clone());
        let absorbed = |d: &mut Dom, w: &TE| do_merge(d, x.clone(), w.clone()).map(|o| o.expr == x).unwrap_or(false);
        let a1 = absorbed(d, &w1);
        let a2 = absorbed(d, &w2);
        let clash = do_merge(d, w1.clone(), w2.clone())
            .map(|o| matches!(o.expr, TE::Conflict { .. }))
            .unwrap_or(false);
        if a1 && a2 && clash {
            family = format!("absorb-{}", kind(&x));
        }
    } else if e.iter().filter(|t| matches!(t, TE::Bytes)).count() == 1
        && e.iter().filter(|t| matches!(t, TE::DynamicArray { .. })).count() == 2
    {
        family = "absorb-drops-equality".into();
    }
    let parts: Vec<String> = e.iter().map(short).collect();
    format!("assoc:{family}:{}", parts.join(" | "))
}

const PACKED_LAYOUTS: [&[(usize, usize)]; 5] = [&[(0, 160), (160, 96)], &[(0, 256)], &[(0, 8), (8, 248)], &[(0, 8)], &[(16, 16), (0, 16)]];

fn packed_names() -> Vec<String> {
    let mut v = Vec::new();
    for li in 0..PACKED_LAYOUTS.len() {
        v.push(format!("packed{li}"));
        v.push(format!("struct{li}"));
    }
    v
}

/// merge(x, y) and merge(y, x) for two of the packed / struct encodings, each reduced to what survives any choice of
/// fresh variables: conflict or not, the struct flag, the span layout.
fn packed_pair(i: usize, j: usize) -> Result<(String, String), String> {
    use sle::tc::expression::Span;
    let mut st = TypeCheckerState::empty();
    let mut fresh = || st.register(RSV::new_value(0, Provenance::Synthetic));
    let (a, b, c, e, parent) = (fresh(), fresh(), fresh(), fresh(), fresh());
    let build = |k: usize| -> TE {
        let (li, flag) = (k / 2, k % 2 == 1);
        let vars = if flag { [c, e] } else { [a, b] };
        let spans: Vec<Span> = PACKED_LAYOUTS[li].iter().enumerate().map(|(n, (o, z))| Span::new(vars[n % 2], *o, *z)).collect();
        if flag {
            TE::struct_of(spans)
        } else {
            TE::packed_of(spans)
        }
    };
    let shape = |e: &TE| -> String {
        match e {
            TE::Conflict { .. } => "conflict".to_string(),
            TE::Packed { types, is_struct } => {
                let mut l: Vec<(usize, usize)> = types.iter().map(|s| (s.offset, s.size)).collect();
                l.sort();
                format!("struct={is_struct} {l:?}")
            }
            other => format!("{other:?}"),
        }
    };
    let (x, y) = (build(i), build(j));
    let ab = guarded(|| merge(x.clone(), y.clone(), parent, &mut st)).map(|m| shape(&m.expression))?;
    let ba = guarded(|| merge(y.clone(), x.clone(), parent, &mut st)).map(|m| shape(&m.expression))?;
    Ok((ab, ba))
}

pub struct C16;

impl Check for C16 {
    fn id(&self) -> &'static str {
        "C16"
    }
    fn level(&self) -> &'static str {
        "exploration"
    }
    fn chunks(&self, _tier: Tier) -> usize {
        domain().elems.len() + 1
    }
    fn run_chunk(&self, _tier: Tier, chunk: usize, ctx: &mut Ctx) {
        let mut d = domain();
        let n = d.elems.len();
        if chunk == n {
            // all ordered pairs, with the evidence being about an unrelated variable, about v0 and about v1 (evidence
            // that mentions the variable it is about is self-referential)
            let unrelated = d.parent;
            let about = [unrelated, d.v[0], d.v[1]];
            for which in 0..3 {
              d.parent = about[which];
              for i in 0..n {
                for j in 0..n {
                    ctx.case(|| json!({"pair": [i, j], "about": which}));
                    ctx.count("evaluations", 1);
                    ctx.count("pairs", 1);
                    let p = pair(&mut d, i, j);
                    let desc = format!("{} . {}", short(&d.elems[i]), short(&d.elems[j]));
                    match (&p.ab, &p.ba) {
                        (Ok(x), Ok(y)) => {
                            ctx.distinct("outcomes", crate::util::h64(&format!("{x:?}")));
                            if i != j && !x.conflict && d.elems[i] != TE::Any && d.elems[j] != TE::Any {
                                ctx.distinct("nontrivial", crate::util::h64(&("p", i, j)));
                            }
                            if !same(x, y) {
                                let mut parts = vec![short(&d.elems[i]), short(&d.elems[j])];
                                parts.sort();
                                ctx.violation(
                                    format!("comm:{{{}}}{}", parts.join(" . "), ["", ":about-v0", ":about-v1"][which]),
                                    format!("merge({desc}) = {x:?} but flipped = {y:?} (evidence about {})", ["an unrelated variable", "v0", "v1"][which]),
                                    json!({"pair": [i, j], "about": which}),
                                );
                            } else if i < j {
                                ctx.sample(|| json!({"pair": desc, "outcome": x.expr, "joined_v0_v1": x.joined}));
                            }
                        }
                        (Err(p), _) | (_, Err(p)) => ctx.violation(
                            format!("panic:{}", panic_site(p)),
                            format!("merge({desc}) panicked: {p}"),
                            json!({"pair": [i, j], "about": which}),
                        ),
                    }
                }
              }
            }
            d.parent = unrelated;
            // beyond the stated domain, order only: packed encodings and structs of equal and of different layouts
            let n_packed = packed_names().len();
            for i in 0..n_packed {
                for j in 0..n_packed {
                    ctx.case(|| json!({"packed_pair": [i, j]}));
                    ctx.count("evaluations", 1);
                    ctx.count("packed_pairs", 1);
                    let names = packed_names();
                    match packed_pair(i, j) {
                        Ok((p, q)) if p == q => {}
                        Ok((p, q)) => {
                            let mut parts = vec![names[i].clone(), names[j].clone()];
                            parts.sort();
                            ctx.violation(
                                format!("comm:packed:{{{}}}", parts.join(" . ")),
                                format!("merge({}, {}) = {p} but flipped = {q}", names[i], names[j]),
                                json!({"packed_pair": [i, j]}),
                            );
                        }
                        Err(p) => ctx.violation(format!("panic:{}", panic_site(&p)), format!("merge panicked: {p}"), json!({"packed_pair": [i, j]})),
                    }
                }
            }
            return;
        }
        let i = chunk;
        for j in 0..n {
            for k in 0..n {
                ctx.case(|| json!({"triple": [i, j, k]}));
                ctx.count("evaluations", 1);
                ctx.count("triples", 1);
                let (l, r) = triple(&mut d, i, j, k);
                let desc = format!("{} . {} . {}", short(&d.elems[i]), short(&d.elems[j]), short(&d.elems[k]));
                match (&l, &r) {
                    (Ok(x), Ok(y)) => {
                        ctx.distinct("outcomes", crate::util::h64(&format!("{x:?}")));
                        let any = [i, j, k].iter().any(|t| d.elems[*t] == TE::Any);
                        if i != j && j != k && i != k && !any && (!x.conflict || !y.conflict) {
                            ctx.distinct("nontrivial", crate::util::h64(&("t", i, j, k)));
                        }
                        if !same(x, y) {
                            let key = triple_key(&mut d, i, j, k);
                            let family = key.split(':').nth(1).unwrap_or("");
                            ctx.count(&format!("family:{family}"), 1);
                            ctx.violation(
                                key,
                                format!("({desc}) grouped left = {x:?}, grouped right = {y:?}"),
                                json!({"triple": [i, j, k]}),
                            );
                        }
                    }
                    (Err(p), _) | (_, Err(p)) => ctx.violation(
                        format!("panic:{}", panic_site(p)),
                        format!("merging {desc} panicked: {p}"),
                        json!({"triple": [i, j, k]}),
                    ),
                }
            }
        }
    }
    fn coverage(&self, _tier: Tier, total: &Ctx) -> Map<String, Value> {
        let rule = "the whole stated domain: Any, dynamic bytes, 4 open usages x 6 widths + 4 fixed-width usages, 4 mappings / 2 dynamic \
                    arrays / 4 fixed arrays over {v0, v1}, one conflict (41 elements); ALL ordered pairs (commutativity; with the evidence about an unrelated variable, about v0 and about v1) ; beyond the stated domain: all ordered pairs of 10 packed encodings / structs (5 span layouts), compared by conflict-ness, struct flag and span layout) and ALL ordered \
                    triples (associativity) through the real unification::merge, compared after normalisation (conflicts collapsed, \
                    variables replaced by class representative under the emitted equalities, partition of {v0,v1}; only conflict-ness \
                    when a side conflicts). non-trivial = pairwise-distinct elements, none of them Any, result not a conflict on both \
                    sides; distinct by index tuple";
        exploration_coverage(total, total.get("evaluations"), total.distinct_count("nontrivial"), rule, true)
    }
    fn assumptions(&self, _tier: Tier) -> Vec<String> {
        vec![
            "packed encodings are outside the property's stated domain and are not combined here (see C14)".into(),
            "a panic inside merge counts as a violation of this property only through its class key panic:*".into(),
        ]
    }
    fn replay(&self, replay: &Value) -> bool {
        let mut d = domain();
        let c = &replay["case"];
        if let Some(p) = c.get("packed_pair") {
            let (i, j) = (p[0].as_u64().unwrap() as usize, p[1].as_u64().unwrap() as usize);
            let names = packed_names();
            return match packed_pair(i, j) {
                Ok((x, y)) => {
                    println!("merge({}, {}) = {x}\nmerge({}, {}) = {y}", names[i], names[j], names[j], names[i]);
                    x != y
                }
                Err(e) => {
                    println!("panicked: {e}");
                    true
                }
            };
        }
        if let Some(p) = c.get("pair") {
            let (i, j) = (p[0].as_u64().unwrap() as usize, p[1].as_u64().unwrap() as usize);
            match c["about"].as_u64() {
                Some(1) => d.parent = d.v[0],
                Some(2) => d.parent = d.v[1],
                _ => {}
            }
            let r = pair(&mut d, i, j);
            println!("merge({}, {}) = {:?}", short(&d.elems[i]), short(&d.elems[j]), r.ab);
            println!("merge({}, {}) = {:?}", short(&d.elems[j]), short(&d.elems[i]), r.ba);
            match (r.ab, r.ba) {
                (Ok(x), Ok(y)) => !same(&x, &y),
                _ => true,
            }
        } else {
            let t = &c["triple"];
            let (i, j, k) = (
                t[0].as_u64().unwrap() as usize,
                t[1].as_u64().unwrap() as usize,
                t[2].as_u64().unwrap() as usize,
            );
            let (l, r) = triple(&mut d, i, j, k);
            println!("a = {}, b = {}, c = {}", short(&d.elems[i]), short(&d.elems[j]), short(&d.elems[k]));
            println!("(a . b) . c = {l:?}");
            println!("a . (b . c) = {r:?}");
            match (l, r) {
                (Ok(x), Ok(y)) => !same(&x, &y),
                _ => true,
            }
        }
    }
}
