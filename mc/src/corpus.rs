//! The finite corpus of real contracts shipped with the repository (read from /repo at run time).

use std::fs;

pub struct Contract {
    pub name: String,
    pub code: Vec<u8>,
}

fn long_hex_strings(s: &str) -> Vec<String> {
    let mut out = Vec::new();
    let bytes = s.as_bytes();
    let mut i = 0;
    while i < bytes.len() {
        if bytes[i] == b'"' {
            let mut j = i + 1;
            if j + 1 < bytes.len() && bytes[j] == b'0' && bytes[j + 1] == b'x' {
                j += 2;
            }
            let start = j;
            while j < bytes.len() && bytes[j].is_ascii_hexdigit() {
                j += 1;
            }
            if j < bytes.len() && bytes[j] == b'"' && j - start >= 100 && (j - start) % 2 == 0 {
                out.push(s[start..j].to_string());
            }
            i = j.max(i + 1);
        } else {
            i += 1;
        }
    }
    out
}

/// All shipped contracts, smallest first.
pub fn load() -> Vec<Contract> {
    let mut v = Vec::new();
    if let Ok(rd) = fs::read_dir("/repo/asset") {
        for e in rd.flatten() {
            let p = e.path();
            if p.extension().map(|x| x == "json").unwrap_or(false) {
                if let Ok(s) = fs::read_to_string(&p) {
                    if let Ok(j) = serde_json::from_str::<serde_json::Value>(&s) {
                        if let Some(o) = j["deployedBytecode"]["object"].as_str() {
                            if let Ok(code) = hex::decode(o.trim_start_matches("0x")) {
                                if !code.is_empty() {
                                    v.push(Contract {
                                        name: p.file_name().unwrap().to_string_lossy().to_string(),
                                        code,
                                    });
                                }
                            }
                        }
                    }
                }
            }
        }
    }
    if let Ok(rd) = fs::read_dir("/repo/tests") {
        for e in rd.flatten() {
            let p = e.path();
            if p.extension().map(|x| x == "rs").unwrap_or(false) {
                if let Ok(s) = fs::read_to_string(&p) {
                    for (k, h) in long_hex_strings(&s).into_iter().enumerate() {
                        if let Ok(code) = hex::decode(&h) {
                            v.push(Contract {
                                name: format!("{}#{k}", p.file_name().unwrap().to_string_lossy()),
                                code,
                            });
                        }
                    }
                }
            }
        }
    }
    v.sort_by(|a, b| (a.code.len(), &a.name).cmp(&(b.code.len(), &b.name)));
    v.dedup_by(|a, b| a.code == b.code);
    v
}
