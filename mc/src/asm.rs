//! Token-level assembler: programs are lists of tokens; labels are resolved to byte offsets.

use crate::u256::U;
use serde_json::{json, Value};

pub mod op {
    pub const STOP: u8 = 0x00;
    pub const ADD: u8 = 0x01;
    pub const MUL: u8 = 0x02;
    pub const SUB: u8 = 0x03;
    pub const DIV: u8 = 0x04;
    pub const SDIV: u8 = 0x05;
    pub const MOD: u8 = 0x06;
    pub const SMOD: u8 = 0x07;
    pub const ADDMOD: u8 = 0x08;
    pub const MULMOD: u8 = 0x09;
    pub const EXP: u8 = 0x0a;
    pub const SIGNEXTEND: u8 = 0x0b;
    pub const LT: u8 = 0x10;
    pub const GT: u8 = 0x11;
    pub const SLT: u8 = 0x12;
    pub const SGT: u8 = 0x13;
    pub const EQ: u8 = 0x14;
    pub const ISZERO: u8 = 0x15;
    pub const AND: u8 = 0x16;
    pub const OR: u8 = 0x17;
    pub const XOR: u8 = 0x18;
    pub const NOT: u8 = 0x19;
    pub const BYTE: u8 = 0x1a;
    pub const SHL: u8 = 0x1b;
    pub const SHR: u8 = 0x1c;
    pub const SAR: u8 = 0x1d;
    pub const SHA3: u8 = 0x20;
    pub const ADDRESS: u8 = 0x30;
    pub const BALANCE: u8 = 0x31;
    pub const ORIGIN: u8 = 0x32;
    pub const CALLER: u8 = 0x33;
    pub const CALLVALUE: u8 = 0x34;
    pub const CALLDATALOAD: u8 = 0x35;
    pub const CALLDATASIZE: u8 = 0x36;
    pub const CALLDATACOPY: u8 = 0x37;
    pub const CODESIZE: u8 = 0x38;
    pub const CODECOPY: u8 = 0x39;
    pub const GASPRICE: u8 = 0x3a;
    pub const EXTCODESIZE: u8 = 0x3b;
    pub const EXTCODECOPY: u8 = 0x3c;
    pub const RETURNDATASIZE: u8 = 0x3d;
    pub const RETURNDATACOPY: u8 = 0x3e;
    pub const EXTCODEHASH: u8 = 0x3f;
    pub const BLOCKHASH: u8 = 0x40;
    pub const TIMESTAMP: u8 = 0x42;
    pub const POP: u8 = 0x50;
    pub const MLOAD: u8 = 0x51;
    pub const MSTORE: u8 = 0x52;
    pub const MSTORE8: u8 = 0x53;
    pub const SLOAD: u8 = 0x54;
    pub const SSTORE: u8 = 0x55;
    pub const JUMP: u8 = 0x56;
    pub const JUMPI: u8 = 0x57;
    pub const PC: u8 = 0x58;
    pub const MSIZE: u8 = 0x59;
    pub const GAS: u8 = 0x5a;
    pub const JUMPDEST: u8 = 0x5b;
    pub const PUSH0: u8 = 0x5f;
    pub const PUSH1: u8 = 0x60;
    pub const DUP1: u8 = 0x80;
    pub const DUP2: u8 = 0x81;
    pub const DUP3: u8 = 0x82;
    pub const SWAP1: u8 = 0x90;
    pub const SWAP2: u8 = 0x91;
    pub const LOG0: u8 = 0xa0;
    pub const LOG1: u8 = 0xa1;
    pub const CREATE: u8 = 0xf0;
    pub const CALL: u8 = 0xf1;
    pub const RETURN: u8 = 0xf3;
    pub const DELEGATECALL: u8 = 0xf4;
    pub const CREATE2: u8 = 0xf5;
    pub const STATICCALL: u8 = 0xfa;
    pub const REVERT: u8 = 0xfd;
    pub const INVALID: u8 = 0xfe;
    pub const SELFDESTRUCT: u8 = 0xff;
}

#[derive(Clone, Debug, PartialEq, Eq, Hash)]
pub enum Tok {
    /// A single opcode byte.
    Op(u8),
    /// PUSH of minimal width (PUSH0 for zero).
    Push(U),
    /// PUSHn with a forced width.
    PushN(u8, U),
    /// Raw bytes, emitted verbatim.
    Raw(Vec<u8>),
    /// JUMPDEST defining label `id`.
    Label(u8),
    /// Zero-length marker defining label `id` at the current offset.
    Mark(u8),
    /// PUSH of the byte offset of label `id` (plus a 256-bit bias added to the pushed constant).
    PushLabel(u8, U),
    /// PUSH of (offset of label `id` + `delta`) for targets relative to a label (e.g. one past it).
    PushLabelPlus(u8, i32),
    /// PUSH of the total code length plus delta.
    PushLen(i32),
    /// PUSH of |offset of label `id` - offset of this PUSH + delta| (0xfe when that is negative and `forward`, or positive
    /// and not `forward`): the distance a PC-relative jump adds to (forward) or subtracts from (backward) a PC read.
    PushDistance(u8, i32, bool),
}

pub fn push_bytes(v: U) -> Vec<u8> {
    if v.is_zero() {
        return vec![op::PUSH0];
    }
    let b = v.to_be_min();
    let mut out = vec![op::PUSH0 + b.len() as u8];
    out.extend(b);
    out
}

pub fn pushn_bytes(n: u8, v: U) -> Vec<u8> {
    assert!((1..=32).contains(&n));
    let b = v.to_be_bytes();
    let mut out = vec![op::PUSH0 + n];
    out.extend(&b[32 - n as usize..]);
    out
}

fn tok_len(t: &Tok, wide_labels: bool) -> usize {
    match t {
        Tok::Op(_) => 1,
        Tok::Push(v) => push_bytes(*v).len(),
        Tok::PushN(n, _) => 1 + *n as usize,
        Tok::Raw(b) => b.len(),
        Tok::Label(_) => 1,
        Tok::Mark(_) => 0,
        Tok::PushLabel(_, bias) => {
            if bias.is_zero() {
                if wide_labels {
                    3
                } else {
                    2
                }
            } else {
                // bias + offset: width is that of the bias (offset < 2^16 never carries into a new byte for the
                // biases used: 2^32, 2^64, 2^255)
                1 + bias.to_be_min().len()
            }
        }
        Tok::PushLabelPlus(..) | Tok::PushLen(_) | Tok::PushDistance(..) => {
            if wide_labels {
                3
            } else {
                2
            }
        }
    }
}

/// Assembles a token list. Undefined labels resolve to offset 0xfe (or 0xfffe) which is normally out of range.
pub fn assemble(toks: &[Tok]) -> Vec<u8> {
    for wide in [false, true] {
        let mut offsets = std::collections::HashMap::new();
        let mut pos = 0usize;
        for t in toks {
            if let Tok::Label(id) | Tok::Mark(id) = t {
                offsets.entry(*id).or_insert(pos);
            }
            pos += tok_len(t, wide);
        }
        let total = pos;
        if !wide && total > 255 {
            continue;
        }
        let mut out = Vec::with_capacity(total);
        let push_small = |x: i64, out: &mut Vec<u8>| {
            let x = x.max(0) as u64;
            if wide {
                out.extend(pushn_bytes(2, U::from_u64(x & 0xffff)));
            } else {
                out.extend(pushn_bytes(1, U::from_u64(x & 0xff)));
            }
        };
        for t in toks {
            match t {
                Tok::Op(b) => out.push(*b),
                Tok::Push(v) => out.extend(push_bytes(*v)),
                Tok::PushN(n, v) => out.extend(pushn_bytes(*n, *v)),
                Tok::Raw(b) => out.extend(b),
                Tok::Label(_) => out.push(op::JUMPDEST),
                Tok::Mark(_) => {}
                Tok::PushLabel(id, bias) => {
                    let off = offsets.get(id).copied().unwrap_or(if wide { 0xfffe } else { 0xfe }) as u64;
                    if bias.is_zero() {
                        push_small(off as i64, &mut out);
                    } else {
                        let v = bias.add(U::from_u64(off));
                        let n = bias.to_be_min().len() as u8;
                        out.extend(pushn_bytes(n, v));
                    }
                }
                Tok::PushLabelPlus(id, d) => {
                    let off = offsets.get(id).copied().unwrap_or(0xfe) as i64;
                    push_small(off + *d as i64, &mut out);
                }
                Tok::PushLen(d) => push_small(total as i64 + *d as i64, &mut out),
                Tok::PushDistance(id, d, forward) => {
                    let off = offsets.get(id).copied().unwrap_or(0xfe) as i64;
                    let dist = off - out.len() as i64 + *d as i64;
                    let dist = if *forward { dist } else { -dist };
                    push_small(if dist < 0 { 0xfe } else { dist }, &mut out);
                }
            }
        }
        assert_eq!(out.len(), total);
        return out;
    }
    unreachable!()
}

pub fn toks_json(toks: &[Tok]) -> Value {
    json!(toks.iter().map(|t| format!("{t:?}")).collect::<Vec<_>>())
}

// ---------------------------------------------------------------------------------------------------------
// idiom macros (expanded to plain tokens)

pub fn p(v: u64) -> Tok {
    Tok::Push(U::from_u64(v))
}
pub fn pu(v: U) -> Tok {
    Tok::Push(v)
}
pub fn o(b: u8) -> Tok {
    Tok::Op(b)
}

/// `key` is on the stack; leaves keccak(key || slot) on the stack (solc layout: key at 0x00, slot at 0x20).
pub fn mapkey_from_stack(slot: U) -> Vec<Tok> {
    vec![p(0), o(op::MSTORE), pu(slot), p(0x20), o(op::MSTORE), p(0x40), p(0), o(op::SHA3)]
}

/// keccak(slot) for a dynamic array's data area.
pub fn arrkey(slot: U) -> Vec<Tok> {
    vec![pu(slot), p(0), o(op::MSTORE), p(0x20), p(0), o(op::SHA3)]
}

pub fn sloadc(slot: U) -> Vec<Tok> {
    vec![pu(slot), o(op::SLOAD)]
}

/// value on the stack -> stored at constant slot
pub fn sstorec(slot: U) -> Vec<Tok> {
    vec![pu(slot), o(op::SSTORE)]
}

pub fn cdl(offset: u64) -> Vec<Tok> {
    vec![p(offset), o(op::CALLDATALOAD)]
}

pub fn mask(m: U) -> Vec<Tok> {
    vec![pu(m), o(op::AND)]
}
