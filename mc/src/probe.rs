//! `mc probe <hex>`: runs one analysis under the canonical plan and under all single deviations, printing the
//! observations (debugging aid; not a check).

use crate::obs::{analyze, CountingWatchdog, Obs};
use crate::sched::{extend, plan_json};
use crate::util::unhex;
use storage_layout_extractor as sle;

pub fn run(args: &[String]) -> i32 {
    crate::infra::install_quiet_panic_hook();
    let code = unhex(&args[0]);
    let budget = 200_000u64;
    let one = |plan: &crate::obs::Plan| -> (Obs, u64) {
        let w = CountingWatchdog::new(1, Some(budget));
        let o = analyze(&code, sle::vm::Config::default(), plan, w.clone());
        (o, w.polls.get())
    };
    let (base, polls) = one(&Vec::new());
    println!("canonical: {} polls={polls}", base.json());
    for p in &base.log {
        if p.len >= 2 {
            println!("  point {}#{} len={}", p.site, p.occurrence, p.len);
        }
    }
    if let Some(i) = args.iter().position(|a| a == "--natural") {
        // real hash seeds and real random identifiers: how many distinct results do n plain runs give?
        let n: usize = args.get(i + 1).and_then(|s| s.parse().ok()).unwrap_or(64);
        let mut outcomes: std::collections::BTreeMap<String, usize> = std::collections::BTreeMap::new();
        for _ in 0..n {
            let o = crate::obs::analyze_natural(&code, sle::vm::Config::default(), crate::obs::lazy());
            *outcomes.entry(o.canon_result()).or_insert(0) += 1;
        }
        for (k, v) in &outcomes {
            println!("  {v:4} x {k}");
        }
    }
    if args.iter().any(|a| a == "--deviations") {
        let plans = extend(&Vec::new(), &base.log, &|_| true);
        println!("{} single-deviation plans", plans.len());
        let mut outcomes = std::collections::BTreeMap::new();
        for pl in plans {
            let (o, polls) = one(&pl);
            let k = o.canon_result();
            let e = outcomes.entry(k).or_insert((0usize, plan_json(&pl), polls));
            e.0 += 1;
        }
        for (k, (n, pl, polls)) in outcomes {
            println!("{n:5} x {k}   e.g. plan {pl} polls={polls}");
        }
    }
    0
}
