//! Running the subject deterministically and turning its answer into a canonical observation.

use crate::util::h64;
use serde_json::{json, Value};
use std::cell::Cell;
use std::rc::Rc;
use storage_layout_extractor as sle;
use sle::extractor::chain::{version::{ChainVersion, EthereumVersion}, Chain};
use sle::extractor::contract::Contract;
use sle::layout::{StorageLayout, StorageSlot};
use sle::tc::abi::AbiType;
use sle::verif_hooks::{self, Controller, OrderPoint, Perm};
use sle::watchdog::{DynWatchdog, LazyWatchdog, Watchdog};

pub type Plan = Vec<((String, usize), Perm)>;

/// Watchdog that counts polls and starts saying "stop" from poll index `stop_at` on.
#[derive(Debug)]
pub struct CountingWatchdog {
    pub polls: Cell<u64>,
    pub stop_at: Option<u64>,
    pub interval: usize,
    /// Only for step-budget use: also answer stop once this instant has passed. Work between two polls can grow
    /// without bound when a loop that should have ended does not (every round doubles the evidence), so a budget
    /// counted in polls alone may never be reached; the deadline turns that into the same verdict (`over budget`).
    pub deadline: Cell<Option<std::time::Instant>>,
}
impl CountingWatchdog {
    pub fn new(interval: usize, stop_at: Option<u64>) -> Rc<Self> {
        Rc::new(Self {
            polls: Cell::new(0),
            stop_at,
            interval,
            deadline: Cell::new(None),
        })
    }
    pub fn with_deadline(interval: usize, stop_at: Option<u64>, seconds: u64) -> Rc<Self> {
        let w = Self::new(interval, stop_at);
        w.deadline.set(Some(std::time::Instant::now() + std::time::Duration::from_secs(seconds)));
        w
    }
}
impl Watchdog for CountingWatchdog {
    fn should_stop(&self) -> bool {
        let k = self.polls.get();
        self.polls.set(k + 1);
        if let Some(d) = self.deadline.get() {
            if std::time::Instant::now() >= d {
                return true;
            }
        }
        matches!(self.stop_at, Some(s) if k >= s)
    }
    fn poll_every(&self) -> usize {
        self.interval
    }
}

#[derive(Clone, Copy, Debug, PartialEq, Eq, Hash)]
pub enum Class {
    Ok,
    ErrDisassembly,
    ErrExecution,
    ErrUnification,
    ErrStopped,
    ErrOther,
    Panic,
}

#[derive(Clone, Debug)]
pub struct Obs {
    pub class: Class,
    pub layout: Option<StorageLayout>,
    /// (kind, location) of every error payload, sorted.
    pub errors: Vec<(String, u32)>,
    pub panic: Option<String>,
    pub log: Vec<OrderPoint>,
    pub plan_errors: Vec<String>,
}

impl Obs {
    /// Canonical rendering used for equality and distinct counting: class, layout with conflict payloads
    /// erased, sorted error list.
    pub fn canon(&self) -> String {
        let layout = self.layout.as_ref().map(layout_canon).unwrap_or_default();
        format!("{:?}|{}|{:?}", self.class, layout, self.errors)
    }
    /// Class + layout only (what C02 compares).
    pub fn canon_result(&self) -> String {
        let layout = self.layout.as_ref().map(layout_canon).unwrap_or_default();
        format!("{:?}|{}", self.class, layout)
    }
    pub fn hash(&self) -> u64 {
        h64(&self.canon())
    }
    pub fn json(&self) -> Value {
        json!({
            "class": format!("{:?}", self.class),
            "layout": self.layout.as_ref().map(layout_canon),
            "errors": self.errors.iter().map(|(k, l)| format!("{k}@{l}")).collect::<Vec<_>>(),
            "panic": self.panic,
        })
    }
}

pub fn type_canon(t: &AbiType) -> String {
    match t {
        AbiType::Any => "any".into(),
        AbiType::Number { size } => format!("number{}", opt(size)),
        AbiType::UInt { size } => format!("uint{}", opt(size)),
        AbiType::Int { size } => format!("int{}", opt(size)),
        AbiType::Address => "address".into(),
        AbiType::Selector => "selector".into(),
        AbiType::Function => "function".into(),
        AbiType::Bool => "bool".into(),
        AbiType::Array { size, tp } => format!("array[{}]<{}>", size.0, type_canon(tp)),
        AbiType::Bytes { length } => format!("bytes{}", opt(length)),
        AbiType::Bits { length } => format!("bits{}", opt(length)),
        AbiType::DynArray { tp } => format!("dynarray<{}>", type_canon(tp)),
        AbiType::DynBytes => "dynbytes".into(),
        AbiType::Mapping { key_type, value_type } => {
            format!("mapping<{},{}>", type_canon(key_type), type_canon(value_type))
        }
        AbiType::Struct { elements } => format!(
            "struct{{{}}}",
            elements
                .iter()
                .map(|e| format!("{}:{}", e.offset, type_canon(&e.typ)))
                .collect::<Vec<_>>()
                .join(",")
        ),
        AbiType::InfiniteType => "infinite".into(),
        AbiType::ConflictedType { .. } => "conflict".into(),
    }
}
fn opt(x: &Option<usize>) -> String {
    x.map(|v| v.to_string()).unwrap_or_else(|| "?".into())
}

pub fn slot_canon(s: &StorageSlot) -> String {
    format!("{:x}@{}:{}", s.index.0, s.offset, type_canon(&s.typ))
}

pub fn layout_canon(l: &StorageLayout) -> String {
    l.slots().iter().map(slot_canon).collect::<Vec<_>>().join(";")
}

pub fn contract(bytes: &[u8]) -> Contract {
    Contract::new(
        bytes.to_vec(),
        Chain::Ethereum {
            version: EthereumVersion::latest(),
        },
    )
}

pub fn error_kind<E: std::fmt::Debug>(e: &E) -> String {
    let s = format!("{e:?}");
    let inner = s
        .strip_prefix("Disassembly(")
        .or_else(|| s.strip_prefix("Execution("))
        .or_else(|| s.strip_prefix("Unification("))
        .unwrap_or(&s);
    inner
        .split(|c: char| !c.is_alphanumeric())
        .next()
        .unwrap_or("")
        .to_string()
}

pub fn classify(errs: &sle::error::Errors) -> (Class, Vec<(String, u32)>) {
    let mut list: Vec<(String, u32)> = errs
        .payloads()
        .iter()
        .map(|e| (error_kind(&e.payload), e.location))
        .collect();
    list.sort();
    let stopped = list.iter().any(|(k, _)| k == "StoppedByWatchdog");
    let class = if stopped {
        Class::ErrStopped
    } else {
        match errs.payloads().first().map(|e| &e.payload) {
            Some(sle::error::Error::Disassembly(_)) => Class::ErrDisassembly,
            Some(sle::error::Error::Execution(_)) => Class::ErrExecution,
            Some(sle::error::Error::Unification(_)) => Class::ErrUnification,
            _ => Class::ErrOther,
        }
    };
    (class, list)
}

/// Runs `f` with a fresh controller carrying `plan` installed; returns its result and the controller.
/// Number of runs after which the subject had added something to the (per-thread) table of slot hashes that the
/// harness keeps between runs; every run starts from the pristine table.
pub static LEARNED_HASHES: std::sync::atomic::AtomicU64 = std::sync::atomic::AtomicU64::new(0);

fn pristine_tables() {
    if verif_hooks::restore_cached_hashes(sle::tc::lift::recognise_hashed_slots::SLOT_COUNT) {
        LEARNED_HASHES.fetch_add(1, std::sync::atomic::Ordering::Relaxed);
    }
}

pub fn with_controller<T>(plan: &Plan, f: impl FnOnce() -> T) -> (Result<T, String>, Controller) {
    pristine_tables();
    verif_hooks::install(Controller::new(plan.clone()));
    let r = std::panic::catch_unwind(std::panic::AssertUnwindSafe(f));
    let ctl = verif_hooks::uninstall().unwrap_or_default();
    match r {
        Ok(v) => (Ok(v), ctl),
        Err(_) => (Err(crate::infra::take_last_panic()), ctl),
    }
}

/// The one-call entry point under the canonical (or a planned) order, with a panic guard.
pub fn analyze(bytes: &[u8], vm: sle::vm::Config, plan: &Plan, watchdog: DynWatchdog) -> Obs {
    let (r, ctl) = with_controller(plan, || {
        sle::new(contract(bytes), vm, sle::tc::Config::default(), watchdog).analyze()
    });
    finish_obs(r, ctl)
}

pub fn finish_obs(r: Result<sle::error::Result<StorageLayout>, String>, ctl: Controller) -> Obs {
    let log = ctl.log().to_vec();
    let plan_errors = ctl.plan_errors().to_vec();
    match r {
        Ok(Ok(layout)) => Obs {
            class: Class::Ok,
            layout: Some(layout),
            errors: vec![],
            panic: None,
            log,
            plan_errors,
        },
        Ok(Err(errs)) => {
            let (class, errors) = classify(&errs);
            Obs {
                class,
                layout: None,
                errors,
                panic: None,
                log,
                plan_errors,
            }
        }
        Err(p) => Obs {
            class: Class::Panic,
            layout: None,
            errors: vec![],
            panic: Some(p),
            log,
            plan_errors,
        },
    }
}

/// The one-call entry point WITHOUT a controller: real random hash seeds and random identifiers, as a user
/// of the library gets them. Not replayable; used only as a cross-check that the hooks own every source of
/// nondeterminism.
pub fn analyze_natural(bytes: &[u8], vm: sle::vm::Config, watchdog: DynWatchdog) -> Obs {
    let _ = verif_hooks::uninstall();
    pristine_tables();
    let r = std::panic::catch_unwind(std::panic::AssertUnwindSafe(|| {
        sle::new(contract(bytes), vm, sle::tc::Config::default(), watchdog).analyze()
    }));
    let r = match r {
        Ok(v) => Ok(v),
        Err(_) => Err(crate::infra::take_last_panic()),
    };
    finish_obs(r, Controller::default())
}

pub fn lazy() -> DynWatchdog {
    LazyWatchdog.in_rc()
}

pub fn analyze_default(bytes: &[u8]) -> Obs {
    analyze(bytes, sle::vm::Config::default(), &Vec::new(), lazy())
}

/// The same pipeline driven stage by stage through the staged API.
pub fn analyze_staged(bytes: &[u8], vm: sle::vm::Config, plan: &Plan, watchdog: DynWatchdog) -> Obs {
    let (r, ctl) = with_controller(plan, || -> sle::error::Result<StorageLayout> {
        let e = sle::new(contract(bytes), vm, sle::tc::Config::default(), watchdog);
        let e = e.disassemble()?;
        let e = e.prepare_vm()?;
        let e = e.execute()?;
        let e = e.prepare_unifier();
        let e = e.infer()?;
        Ok(e.layout().clone())
    });
    finish_obs(r, ctl)
}

/// The same two entry points with a caller-supplied type-checker configuration.
pub fn analyze_tc(bytes: &[u8], vm: sle::vm::Config, tc: sle::tc::Config, plan: &Plan, watchdog: DynWatchdog) -> Obs {
    let (r, ctl) = with_controller(plan, || sle::new(contract(bytes), vm, tc, watchdog).analyze());
    finish_obs(r, ctl)
}

pub fn analyze_staged_tc(bytes: &[u8], vm: sle::vm::Config, tc: sle::tc::Config, plan: &Plan, watchdog: DynWatchdog) -> Obs {
    let (r, ctl) = with_controller(plan, || -> sle::error::Result<StorageLayout> {
        let e = sle::new(contract(bytes), vm, tc, watchdog);
        let e = e.disassemble()?;
        let e = e.prepare_vm()?;
        let e = e.execute()?;
        let e = e.prepare_unifier();
        let e = e.infer()?;
        Ok(e.layout().clone())
    });
    finish_obs(r, ctl)
}

pub const TC_VARIANTS: usize = 31;

/// Type-checker configurations a user can legitimately build from the public passes and rules: the default, no passes,
/// no rules, neither, each single pass left out, each single rule left out, the passes in reverse order, and the default
/// plus the one public rule that is not part of it.
pub fn tc_variant(i: usize) -> (String, sle::tc::Config) {
    use sle::tc::lift::{
        dynamic_array_access::DynamicArrayIndex, mapping_index::MappingIndex, mapping_offset::MappingOffset, mul_shifted::MulShiftedValue,
        packed_encoding::PackedEncoding, proxy_slots::ProxySlots, recognise_hashed_slots::StorageSlotHashes, storage_slots::StorageSlots,
        sub_word::SubWordValue, Lift, LiftingPasses,
    };
    use sle::tc::rule::*;
    let passes = |skip: Option<usize>, reverse: bool| {
        let mut v: Vec<(usize, Box<dyn Lift>)> = vec![
            (0, StorageSlotHashes::new()),
            (1, ProxySlots::new()),
            (2, MappingIndex::new()),
            (3, SubWordValue::new()),
            (4, MulShiftedValue::new()),
            (5, PackedEncoding::new()),
            (6, DynamicArrayIndex::new()),
            (7, StorageSlots::new()),
            (8, MappingOffset::new()),
        ];
        v.retain(|(k, _)| Some(*k) != skip);
        if reverse {
            v.reverse();
        }
        LiftingPasses::new(v.into_iter().map(|(_, p)| p).collect::<Vec<_>>())
    };
    let rules = |skip: Option<usize>, extra: bool| {
        let mut r = InferenceRules::new();
        let mut k = 0;
        macro_rules! add {
            ($rule:expr) => {
                if Some(k) != skip {
                    r.add($rule);
                }
                k += 1;
            };
        }
        add!(arithmetic_operations::ArithmeticOperationRule);
        add!(bit_shifts::BitShiftRule);
        add!(boolean_operations::BooleanOpsRule);
        add!(call_data::CallDataRule);
        add!(create::CreateContractRule);
        add!(dynamic_array_write::DynamicArrayWriteRule);
        add!(environment_opcodes::EnvironmentCodesRule);
        add!(external_calls::ExternalCallRule);
        add!(sha3::HashRule);
        add!(mapping_access::MappingAccessRule);
        add!(masked_word::MaskedWordRule);
        add!(offset_size::OffsetSizeRule);
        add!(packed_encoding::PackedEncodingRule);
        add!(s_load_is_inner_types::SLoadIsInnerTypesRule);
        add!(storage_key::StorageKeyRule);
        add!(storage_write::StorageWriteRule);
        let _ = k;
        if extra {
            r.add(ext_code::ExtCodeRule);
        }
        r
    };
    let cfg = |p: LiftingPasses, r: InferenceRules| sle::tc::Config::default().with_lifting_passes(p).with_inference_rules(r);
    match i {
        0 => ("default".into(), sle::tc::Config::default()),
        1 => ("no lifting passes".into(), cfg(LiftingPasses::new(Vec::<Box<dyn Lift>>::new()), rules(None, false))),
        2 => ("no inference rules".into(), cfg(passes(None, false), InferenceRules::new())),
        3 => ("no passes and no rules".into(), cfg(LiftingPasses::new(Vec::<Box<dyn Lift>>::new()), InferenceRules::new())),
        4..=12 => (format!("lifting pass {} left out", i - 4), cfg(passes(Some(i - 4), false), rules(None, false))),
        13..=28 => (format!("inference rule {} left out", i - 13), cfg(passes(None, false), rules(Some(i - 13), false))),
        29 => ("lifting passes in reverse order".into(), cfg(passes(None, true), rules(None, false))),
        _ => ("default rules plus ExtCodeRule".into(), cfg(passes(None, false), rules(None, true))),
    }
}

pub fn vm_config_json(c: &sle::vm::Config) -> Value {
    json!({
        "gas_limit": c.gas_limit,
        "iterations": c.maximum_iterations_per_opcode,
        "forks": c.maximum_forks_per_fork_target,
        "value_size": c.value_size_limit,
        "mem_op": c.single_memory_operation_size_limit,
        "permissive": c.permissive_errors,
    })
}

pub fn vm_config_from_json(v: &Value) -> sle::vm::Config {
    let d = sle::vm::Config::default();
    sle::vm::Config {
        gas_limit: v["gas_limit"].as_u64().map(|x| x as usize).unwrap_or(d.gas_limit),
        maximum_iterations_per_opcode: v["iterations"]
            .as_u64()
            .map(|x| x as usize)
            .unwrap_or(d.maximum_iterations_per_opcode),
        maximum_forks_per_fork_target: v["forks"]
            .as_u64()
            .map(|x| x as usize)
            .unwrap_or(d.maximum_forks_per_fork_target),
        value_size_limit: v["value_size"].as_u64().map(|x| x as usize).unwrap_or(d.value_size_limit),
        single_memory_operation_size_limit: v["mem_op"]
            .as_u64()
            .map(|x| x as usize)
            .unwrap_or(d.single_memory_operation_size_limit),
        permissive_errors: v["permissive"].as_bool().unwrap_or(d.permissive_errors),
    }
}
