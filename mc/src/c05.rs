//! C05 — no phantom slots: every reported slot comes from an executed storage access.

use crate::asm::{arrkey, assemble, mapkey_from_stack, o, op, p, pu, Tok};
use crate::infra::*;
use crate::obs::{analyze, lazy, layout_canon, Class};
use crate::prog::{run_seq_chunk, seq_chunks};
use crate::u256::U;
use crate::util::{from_ethnum, from_kw, hex, keccak_words, unhex};
use crate::vmrun::{run_vm, VmRun};
use serde_json::{json, Map, Value};
use std::collections::BTreeSet;
use std::sync::OnceLock;
use storage_layout_extractor as sle;
use sle::vm::value::{RuntimeBoxedVal, RSVD};

#[derive(Clone, Copy, Debug, PartialEq, Eq)]
enum Tk {
    MapKeyCaller7,
    MapKeyCdl8,
    /// keccak(bytes32("eternal.storage.balance.of") ++ caller): a namespaced key whose preimage is only partly constant
    NamespacedKeyCaller,
    /// keccak(calldataload(0) ++ bytes32("eternal.storage.balance.of")): a mapping at a text-like slot constant
    NamespacedKeyCdl,
    ArrKey7Add,
    PushHash7,
    Mask,
    Add,
    Pop,
    Dup1,
    MstoreHi,
    Log1,
    Return,
    CallValue,
    /// the value on top of the stack becomes the 32-byte argument / init code / payload of the instruction
    StaticCallArg,
    DelegateCallArg,
    CallArg,
    CreateArg,
    RevertArg,
    HashAgain,
    Balance,
    IsZero,
    EqCaller,
    CondJump,
    /// an unconditional jump to a constant target beyond the code: the path ends here, what follows is dead
    DeadJump,
    /// bytes 0x5c / 0x5d (no assigned opcode in the supported instruction set) with the operands a load / store would
    /// take: the path ends there like at INVALID; nothing about them is a storage access
    Byte5c,
    Byte5d,
    /// last token only: a jump into the partial data of a PUSH10 that the end of the code cuts short; the data spells
    /// JUMPDEST PUSH1 0x2a PUSH1 7 SSTORE, but push data is not code
    JumpIntoCutPush,
    // real accesses
    Sload1,
    Sstore2,
    Sstore,
    Sload,
}

fn alphabet() -> Vec<Tk> {
    vec![
        Tk::MapKeyCaller7,
        Tk::MapKeyCdl8,
        Tk::NamespacedKeyCaller,
        Tk::NamespacedKeyCdl,
        Tk::ArrKey7Add,
        Tk::PushHash7,
        Tk::Mask,
        Tk::Add,
        Tk::Pop,
        Tk::Dup1,
        Tk::MstoreHi,
        Tk::Log1,
        Tk::Return,
        Tk::CallValue,
        Tk::StaticCallArg,
        Tk::DelegateCallArg,
        Tk::CallArg,
        Tk::CreateArg,
        Tk::RevertArg,
        Tk::HashAgain,
        Tk::Balance,
        Tk::IsZero,
        Tk::EqCaller,
        Tk::CondJump,
        Tk::DeadJump,
        Tk::Byte5c,
        Tk::Byte5d,
        Tk::JumpIntoCutPush,
        Tk::Sload1,
        Tk::Sstore2,
        Tk::Sstore,
        Tk::Sload,
    ]
}

fn arity(t: Tk) -> (usize, usize) {
    match t {
        Tk::MapKeyCaller7 | Tk::MapKeyCdl8 | Tk::NamespacedKeyCaller | Tk::NamespacedKeyCdl | Tk::PushHash7 | Tk::CallValue | Tk::Sload1 => (0, 1),
        Tk::ArrKey7Add => (1, 1),
        Tk::Mask => (1, 1),
        Tk::Add => (2, 1),
        Tk::Pop | Tk::MstoreHi | Tk::Sstore2 => (1, 0),
        Tk::Dup1 => (1, 2),
        Tk::Log1 => (1, 0),
        Tk::Return | Tk::DeadJump | Tk::Byte5c | Tk::Byte5d | Tk::JumpIntoCutPush => (0, 0),
        Tk::StaticCallArg | Tk::DelegateCallArg | Tk::CallArg | Tk::CreateArg | Tk::HashAgain => (1, 1),
        Tk::RevertArg | Tk::CondJump => (1, 0),
        Tk::Balance | Tk::IsZero | Tk::EqCaller => (1, 1),
        Tk::Sstore => (2, 0),
        Tk::Sload => (1, 1),
    }
}

fn is_storage(t: Tk) -> bool {
    matches!(t, Tk::Sload1 | Tk::Sstore2 | Tk::Sstore | Tk::Sload)
}

/// bytes32("eternal.storage.balance.of"): ASCII text, left-aligned.
fn namespace_word() -> U {
    let mut b = [0u8; 32];
    let t = b"eternal.storage.balance.of";
    b[..t.len()].copy_from_slice(t);
    U::from_hex(&hex(&b)).unwrap()
}

fn expand(seq: &[Tk]) -> Vec<u8> {
    let mut t: Vec<Tok> = Vec::new();
    for x in seq {
        match x {
            Tk::MapKeyCaller7 => {
                t.push(o(op::CALLER));
                t.extend(mapkey_from_stack(U::from_u64(7)));
            }
            Tk::MapKeyCdl8 => {
                t.extend([p(0), o(op::CALLDATALOAD)]);
                t.extend(mapkey_from_stack(U::from_u64(8)));
            }
            Tk::NamespacedKeyCaller => {
                t.extend([pu(namespace_word()), p(0), o(op::MSTORE), o(op::CALLER), p(0x20), o(op::MSTORE), p(0x40), p(0), o(op::SHA3)]);
            }
            Tk::NamespacedKeyCdl => {
                t.extend([p(0), o(op::CALLDATALOAD)]);
                t.extend(mapkey_from_stack(namespace_word()));
            }
            Tk::ArrKey7Add => {
                t.extend(arrkey(U::from_u64(7)));
                t.push(o(op::ADD));
            }
            Tk::PushHash7 => t.push(pu(keccak_words(&[U::from_u64(7)]))),
            Tk::Mask => t.extend([pu(U::pow2(160).sub(U::ONE)), o(op::AND)]),
            Tk::Add => t.push(o(op::ADD)),
            Tk::Pop => t.push(o(op::POP)),
            Tk::Dup1 => t.push(o(op::DUP1)),
            Tk::MstoreHi => t.extend([p(0x80), o(op::MSTORE)]),
            Tk::Log1 => t.extend([p(0x20), p(0x80), o(op::LOG1)]),
            Tk::Return => t.extend([p(0x20), p(0x80), o(op::RETURN)]),
            Tk::CallValue => t.push(o(op::CALLVALUE)),
            Tk::StaticCallArg => t.extend([p(0x80), o(op::MSTORE), p(0), p(0), p(0x20), p(0x80), o(op::CALLER), o(op::GAS), o(op::STATICCALL)]),
            Tk::DelegateCallArg => {
                t.extend([p(0x80), o(op::MSTORE), p(0), p(0), p(0x20), p(0x80), o(op::CALLER), o(op::GAS), o(op::DELEGATECALL)])
            }
            Tk::CallArg => t.extend([p(0x80), o(op::MSTORE), p(0), p(0), p(0x20), p(0x80), p(0), o(op::CALLER), o(op::GAS), o(op::CALL)]),
            Tk::CreateArg => t.extend([p(0x80), o(op::MSTORE), p(0x20), p(0x80), p(0), o(op::CREATE)]),
            Tk::RevertArg => t.extend([p(0x80), o(op::MSTORE), p(0x20), p(0x80), o(op::REVERT)]),
            Tk::HashAgain => t.extend([p(0x80), o(op::MSTORE), p(0x20), p(0x80), o(op::SHA3)]),
            Tk::Balance => t.push(o(op::BALANCE)),
            Tk::IsZero => t.push(o(op::ISZERO)),
            Tk::EqCaller => t.extend([o(op::CALLER), o(op::EQ)]),
            // the value decides a conditional jump to the end of the code (an invalid target is fine in permissive mode)
            Tk::CondJump => t.extend([Tok::PushLen(0), o(op::JUMPI)]),
            Tk::DeadJump => t.extend([Tok::PushLen(0), o(op::JUMP)]),
            Tk::Byte5c => t.extend([p(3), o(0x5c), o(op::POP)]),
            Tk::Byte5d => t.extend([p(1), p(7), o(0x5d)]),
            Tk::JumpIntoCutPush => t.extend([Tok::PushLabel(100, U::ZERO), o(op::JUMP), Tok::Raw(vec![0x69]), Tok::Mark(100), Tok::Raw(vec![0x5b, 0x60, 0x2a, 0x60, 0x07, 0x55])]),
            Tk::Sload1 => t.extend([p(1), o(op::SLOAD)]),
            Tk::Sstore2 => t.extend([p(2), o(op::SSTORE)]),
            Tk::Sstore => t.push(o(op::SSTORE)),
            Tk::Sload => t.push(o(op::SLOAD)),
        }
    }
    assemble(&t)
}

fn small_hash_preimage(k: U) -> Option<U> {
    static T: OnceLock<std::collections::BTreeMap<U, u64>> = OnceLock::new();
    T.get_or_init(|| (0..10_000u64).map(|n| (keccak_words(&[U::from_u64(n)]), n)).collect())
        .get(&k)
        .map(|n| U::from_u64(*n))
}

/// Constants (and hashes of constant data) found in one key sub-tree.
fn collect(v: &RuntimeBoxedVal, out: &mut BTreeSet<U>) {
    match v.data() {
        RSVD::KnownData { value } => {
            out.insert(from_kw(value));
        }
        RSVD::Sha3 { data } => {
            // hash of constant data (proxy-slot style): the hash itself is a legitimate slot
            let words: Option<Vec<U>> = match data.data() {
                RSVD::Concat { values } => values
                    .iter()
                    .map(|w| match w.constant_fold().data() {
                        RSVD::KnownData { value } => Some(from_kw(value)),
                        _ => None,
                    })
                    .collect(),
                RSVD::KnownData { value } => Some(vec![from_kw(value)]),
                _ => None,
            };
            if let Some(w) = words {
                out.insert(keccak_words(&w));
            }
        }
        _ => {}
    }
    if let RSVD::KnownData { value } = v.constant_fold().data() {
        out.insert(from_kw(value));
    }
    for c in v.children() {
        collect(&c, out);
    }
}

/// Key sub-trees of every storage node anywhere in a value.
fn keys_of(v: &RuntimeBoxedVal, out: &mut BTreeSet<U>) {
    match v.data() {
        RSVD::SLoad { key, value } | RSVD::StorageWrite { key, value } => {
            collect(key, out);
            keys_of(key, out);
            keys_of(value, out);
        }
        RSVD::UnwrittenStorageValue { key } => {
            collect(key, out);
            keys_of(key, out);
        }
        _ => {
            for c in v.children() {
                keys_of(&c, out);
            }
        }
    }
}

/// Value sub-trees of every storage node anywhere in a value (what the statement does NOT allow as a source).
fn values_of(v: &RuntimeBoxedVal, out: &mut BTreeSet<U>) {
    match v.data() {
        RSVD::SLoad { key, value } | RSVD::StorageWrite { key, value } => {
            collect(value, out);
            values_of(key, out);
            values_of(value, out);
        }
        _ => {
            for c in v.children() {
                values_of(&c, out);
            }
        }
    }
}

fn closure(c0: &BTreeSet<U>) -> BTreeSet<U> {
    let mut c1 = c0.clone();
    for c in c0 {
        if let Some(n) = small_hash_preimage(*c) {
            c1.insert(n);
        }
    }
    let mut c2 = c1.clone();
    for a in &c1 {
        for b in &c1 {
            c2.insert(a.add(*b));
        }
    }
    c2
}

/// Constants that occur (only) in stored / loaded VALUES of storage nodes, closed the same way.
pub fn value_side(code: &[u8]) -> Option<BTreeSet<U>> {
    let out = match run_vm(code, sle::vm::Config::default().with_permissive_errors(true), lazy()) {
        VmRun::Ran(o) => o,
        _ => return None,
    };
    guarded(move || {
        let mut c0 = BTreeSet::new();
        for v in out.vm.consume().all_values() {
            values_of(&v, &mut c0);
        }
        closure(&c0)
    })
    .ok()
}

/// The over-approximated set of attributable slot indices.
pub fn attributable(code: &[u8]) -> Option<BTreeSet<U>> {
    let out = match run_vm(code, sle::vm::Config::default().with_permissive_errors(true), lazy()) {
        VmRun::Ran(o) => o,
        _ => return None,
    };
    let r = guarded(move || {
        let mut c0 = BTreeSet::new();
        for v in out.vm.consume().all_values() {
            keys_of(&v, &mut c0);
        }
        closure(&c0)
    });
    r.ok()
}

pub struct Verdict {
    pub key: String,
    pub what: String,
}

pub struct Facts {
    pub lookalike_lifted: bool,
    pub slots: usize,
}

pub fn check_code(code: &[u8], storage_free: bool) -> Result<Option<Facts>, Verdict> {
    let o = analyze(code, sle::vm::Config::default().with_permissive_errors(true), &Vec::new(), lazy());
    if o.class != Class::Ok {
        return Ok(None);
    }
    let layout = o.layout.as_ref().unwrap();
    let lookalike = code.windows(1).any(|w| w[0] == 0x20) || code.windows(32).any(|w| U::from_be_slice(w) == keccak_words(&[U::from_u64(7)]));
    if storage_free {
        if !layout.is_empty() {
            return Err(Verdict {
                key: "storage-free-program-has-slots".into(),
                what: format!("the program executes no SLOAD or SSTORE but the layout is {}", layout_canon(layout)),
            });
        }
        return Ok(Some(Facts {
            lookalike_lifted: lookalike,
            slots: 0,
        }));
    }
    let Some(a) = attributable(code) else { return Ok(None) };
    for s in layout.slots() {
        let ix = from_ethnum(s.index.0);
        if !a.contains(&ix) {
            let in_value = value_side(code).map(|v| v.contains(&ix)).unwrap_or(false);
            return Err(Verdict {
                key: if in_value { "phantom-slot:only-in-stored-value".into() } else { "phantom-slot:unattributable".into() },
                what: format!(
                    "slot 0x{} is in the layout ({}) but no executed storage access has it in its key (attributable: {:?})",
                    ix.hex_min(),
                    layout_canon(layout),
                    a.iter().map(|x| format!("0x{}", x.hex_min())).collect::<Vec<_>>()
                ),
            });
        }
    }
    Ok(Some(Facts {
        lookalike_lifted: lookalike,
        slots: layout.slot_count(),
    }))
}

pub struct C05;

fn max_len(tier: Tier) -> usize {
    if tier.thorough() {
        6
    } else {
        5
    }
}

impl Check for C05 {
    fn id(&self) -> &'static str {
        "C05"
    }
    fn level(&self) -> &'static str {
        "exploration"
    }
    fn chunks(&self, _tier: Tier) -> usize {
        seq_chunks(alphabet().len()) + seq_chunks(crate::c12::alphabet().len())
    }
    fn run_chunk(&self, tier: Tier, chunk: usize, ctx: &mut Ctx) {
        let own = seq_chunks(alphabet().len());
        if chunk >= own {
            // real accesses followed by arbitrary masking and shifting of the loaded word: the slots reported must still be
            // the ones accessed (a nested sub-word that claims bits beyond bit 255 must not turn into a neighbouring slot)
            let alpha = crate::c12::alphabet();
            let max = if tier.thorough() { 5 } else { 4 };
            run_seq_chunk(alpha.len(), max, chunk - own, &mut |ix| {
                let seq: Vec<crate::c12::Tk> = ix.iter().map(|i| alpha[*i].clone()).collect();
                let mut depth = 0usize;
                for t in &seq {
                    let (pops, pushes) = crate::c12::arity(t);
                    if depth < pops {
                        return false;
                    }
                    depth = depth - pops + pushes;
                }
                let storage_free = !seq.iter().any(|t| matches!(t, crate::c12::Tk::Sload0 | crate::c12::Tk::Sstore(_)));
                if storage_free {
                    return true;
                }
                let code = crate::c12::expand_with(&seq, 5);
                ctx.case(|| json!({"bytes": hex(&code), "storage_free": false}));
                ctx.count("evaluations", 1);
                ctx.count("mask_shift_programs", 1);
                match check_code(&code, false) {
                    Ok(Some(f)) => {
                        ctx.distinct("nontrivial", crate::util::h64(&code));
                        if f.slots > 0 {
                            ctx.count("mask_shift_programs_with_slots", 1);
                        }
                    }
                    Ok(None) => ctx.count("no_layout", 1),
                    Err(v) => ctx.violation(v.key, format!("{} [{seq:?} = {}]", v.what, hex(&code)), json!({"bytes": hex(&code), "storage_free": false})),
                }
                true
            });
            return;
        }
        let alpha = alphabet();
        run_seq_chunk(alpha.len(), max_len(tier), chunk, &mut |ix| {
            let seq: Vec<Tk> = ix.iter().map(|i| alpha[*i]).collect();
            let mut depth = 0usize;
            for (i, t) in seq.iter().enumerate() {
                let (pops, pushes) = arity(*t);
                if depth < pops {
                    return false;
                }
                depth = depth - pops + pushes;
                // code after RETURN / REVERT is dead
                if (*t == Tk::Return || *t == Tk::RevertArg) && i + 1 < seq.len() {
                    return false;
                }
            }
            // what the EVM executes ends at the first jump that cannot succeed; storage instructions behind it are dead
            // the cut-short push swallows whatever follows it, so it only makes sense as the last token
            if let Some(i) = seq.iter().position(|t| *t == Tk::JumpIntoCutPush) {
                if i + 1 < seq.len() {
                    return false;
                }
            }
            let live = seq.iter().position(|t| matches!(t, Tk::DeadJump | Tk::Byte5c | Tk::Byte5d | Tk::JumpIntoCutPush)).map_or(seq.len(), |i| i + 1);
            let storage_free = !seq[..live].iter().any(|t| is_storage(*t));
            let dead_storage = seq[live..].iter().any(|t| is_storage(*t));
            let hashes = seq.iter().any(|t| matches!(t, Tk::MapKeyCaller7 | Tk::MapKeyCdl8 | Tk::NamespacedKeyCaller | Tk::NamespacedKeyCdl | Tk::ArrKey7Add | Tk::PushHash7));
            let odd_bytes = seq.iter().any(|t| matches!(t, Tk::Byte5c | Tk::Byte5d | Tk::JumpIntoCutPush));
            if !hashes && !dead_storage && !odd_bytes {
                return true;
            }
            // quick tier: the longest sequences use at most one of the ten "the hash is consumed by ..." tokens
            let consumers = seq
                .iter()
                .filter(|t| matches!(t, Tk::StaticCallArg | Tk::DelegateCallArg | Tk::CallArg | Tk::CreateArg | Tk::RevertArg | Tk::HashAgain | Tk::Balance | Tk::IsZero | Tk::EqCaller | Tk::CondJump))
                .count();
            if !tier.thorough() && seq.len() >= max_len(tier) && consumers > 1 {
                return true;
            }
            // the namespaced keys (text-like constant next to a symbolic word) in sequences one token shorter (both tiers:
            // at the maximal length they alone would more than double the thorough tier's running time)
            if seq.len() >= max_len(tier) && seq.iter().any(|t| matches!(t, Tk::NamespacedKeyCaller | Tk::NamespacedKeyCdl)) {
                return true;
            }
            // programs without any look-alike hash are only interesting for their dead code: one token shorter
            if !hashes && seq.len() >= max_len(tier) {
                return true;
            }
            if dead_storage {
                ctx.count("programs_with_dead_storage_code", 1);
            }
            let code = expand(&seq);
            ctx.case(|| json!({"bytes": hex(&code), "storage_free": storage_free}));
            ctx.count("evaluations", 1);
            ctx.count(if storage_free { "storage_free_programs" } else { "mixed_programs" }, 1);
            match check_code(&code, storage_free) {
                Ok(Some(f)) => {
                    ctx.distinct("nontrivial", crate::util::h64(&code));
                    if !storage_free && f.slots > 0 {
                        ctx.count("mixed_programs_with_slots", 1);
                        ctx.sample(|| json!({"tokens": format!("{seq:?}"), "bytes": hex(&code), "slots": f.slots, "verdict": "every slot attributable to a key of an executed access"}));
                    }
                }
                Ok(None) => ctx.count("no_layout", 1),
                Err(v) => ctx.violation(v.key, format!("{} [{seq:?} = {}]", v.what, hex(&code)), json!({"bytes": hex(&code), "storage_free": storage_free})),
            }
            true
        });
    }
    fn coverage(&self, tier: Tier, total: &Ctx) -> Map<String, Value> {
        let rule = format!(
            "all stack-safe token sequences <= {} over 32 tokens that contain at least one look-alike hash computation or dead storage code: \
             keccak(caller . 7), keccak(calldata . 8), keccak(bytes32(\"eternal.storage.balance.of\") . caller) and keccak(calldata . that text word) (a key whose preimage is only partly constant; a mapping at a text-like slot constant), keccak(7) + x, the literal keccak(7), a 160-bit mask, ADD, POP, DUP1, MSTORE, \
             LOG1, RETURN, CALLVALUE, the value passed as the argument data of STATICCALL / DELEGATECALL / CALL, as CREATE init code, as \
             REVERT payload, hashed again, used as an address, zero-tested, compared, used as a branch condition, a JUMP beyond the code and the unassigned bytes 0x5c / 0x5d with load / store operands (everything behind them, storage instructions included, is dead), a jump into the partial data of a trailing PUSH10 that spells a store, and the real accesses SLOAD(1), SSTORE(2), SSTORE / SLOAD with the key taken from the stack. \
             (Quick tier: sequences of the maximal length contain at most one consumer token, and sequences without a look-alike hash are one token shorter.) Sequences with a text-word key are one token shorter in both tiers. Programs whose live part (up to the first jump that cannot succeed) executes no storage instruction must yield an empty layout. For mixed programs every layout index must lie in the over-approximated \
             closure of the constants found in KEY sub-trees of the storage nodes of the execution result (constants, their keccak \
             pre-images below 10000, hashes of constant data, one constant addition). non-trivial = every such program (each contains a \
             look-alike hash); distinct by program. Second family: all stack-safe sequences <= {} over the {} mask-and-shift tokens of C12 \
             (SLOAD 5, CALLDATALOAD, masks, SHR / SHL / DIV / MUL by boundary amounts, OR, DUP1, SWAP1, SSTORE to slot 0 / 1) that touch \
             storage, under the same attribution oracle",
            max_len(tier),
            if tier.thorough() { 5 } else { 4 },
            crate::c12::alphabet().len()
        );
        exploration_coverage(total, total.get("evaluations"), total.distinct_count("nontrivial"), &rule, true)
    }
    fn assumptions(&self, _tier: Tier) -> Vec<String> {
        vec![
            "the attributable set is an over-approximation, so the check can only under-report".into(),
            "key sub-trees are read from the tool's own execution result (second run of the VM stage)".into(),
        ]
    }
    fn replay(&self, replay: &Value) -> bool {
        let code = unhex(replay["case"]["bytes"].as_str().unwrap());
        let sf = replay["case"]["storage_free"].as_bool().unwrap_or(false);
        let o = analyze(&code, sle::vm::Config::default().with_permissive_errors(true), &Vec::new(), lazy());
        println!("code: {}\nanalysis: {}", hex(&code), o.json());
        match check_code(&code, sf) {
            Ok(_) => false,
            Err(v) => {
                println!("observed: {}: {}", v.key, v.what);
                true
            }
        }
    }
}
