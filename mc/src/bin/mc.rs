use mc::infra::{die, parse_args, run_check};

fn main() {
    let args: Vec<String> = std::env::args().skip(1).collect();
    if args.is_empty() {
        die("usage: mc <PROPERTY|selfcheck-u256> [--tier quick|thorough] [--replay file]");
    }
    let id = args[0].as_str();
    if id == "selfcheck-u256" {
        std::process::exit(mc::u256_selfcheck::run(&args[1..]));
    }
    if id == "probe" {
        std::process::exit(mc::probe::run(&args[1..]));
    }
    let parsed = parse_args(&args[1..]);
    let reg = mc::registry();
    let Some(check) = reg.iter().find(|c| c.id() == id) else {
        die(&format!("unknown property {id}"));
    };
    std::process::exit(run_check(check.as_ref(), &parsed));
}
