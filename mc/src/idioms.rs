//! Ground-truth layout -> solc-idiom bytecode generator (C04, C11, corpus for C02).
//!
//! The templates are transcribed from solc output shipped in /repo/asset (PackedEncodings, SimpleContract) and
//! from the patterns in docs/Extending the Library.md: constant-slot words, keccak(key . slot) mappings nested by
//! hashing the inner hash as the next slot, keccak(slot) + index arrays, mask / shift / or packing.

use crate::asm::{assemble, o, op, p, pu, Tok};
use crate::u256::U;

#[derive(Clone, Copy, Debug, PartialEq, Eq, Hash)]
pub enum KeyKind {
    Address,
    Word,
    /// a small literal key (m[5]): the key is a small constant while the base slot may be huge
    Const,
}

#[derive(Clone, Debug, PartialEq, Eq, Hash)]
pub enum Kind {
    Word,
    AddressWord,
    /// key kinds outermost first; `address_value`: the value is masked to 160 bits
    Mapping(Vec<KeyKind>, bool),
    DynArray,
    /// a dynamic array whose keccak(slot) the compiler folded into a PUSH constant (optimised solc); slot < 10000
    DynArrayFolded,
    /// (byte offset, byte width) of every field, ascending
    Packed(Vec<(usize, usize)>),
}

#[derive(Clone, Debug, PartialEq, Eq, Hash)]
pub struct Var {
    pub slot: U,
    pub kind: Kind,
}

#[derive(Clone, Copy, Debug, PartialEq, Eq, Hash)]
pub enum Mode {
    Read,
    Write,
    Both,
    /// packed words only: one store that writes every field at once (other kinds: same as Write)
    WriteAll,
}

/// Spelling choices that solc really makes.
#[derive(Clone, Copy, Debug, PartialEq, Eq, Hash)]
pub struct Spelling {
    /// packed write: mul(and(v, m), 2^k) (optimised) instead of and(shl(k, v), m << k)
    pub mul_write: bool,
    /// packed read: and(div(sload, 2^k), m) instead of and(shr(k, sload), m)
    pub div_read: bool,
    /// mask pushed before the value (mask is the second operand popped by AND)
    pub mask_first: bool,
    /// array access: index pushed before the hash
    pub index_first: bool,
    /// uniform field accessor: the right shift is emitted for the field at bit 0 as well (shr(0, sload(k)) & mask)
    pub shift_zero: bool,
}

pub const SPELLINGS: [Spelling; 5] = [
    Spelling {
        mul_write: true,
        div_read: false,
        mask_first: false,
        index_first: false,
        shift_zero: false,
    },
    Spelling {
        mul_write: false,
        div_read: false,
        mask_first: true,
        index_first: true,
        shift_zero: false,
    },
    Spelling {
        mul_write: true,
        div_read: true,
        mask_first: true,
        index_first: false,
        shift_zero: false,
    },
    Spelling {
        mul_write: false,
        div_read: true,
        mask_first: false,
        index_first: true,
        shift_zero: false,
    },
    Spelling {
        mul_write: false,
        div_read: false,
        mask_first: false,
        index_first: false,
        shift_zero: true,
    },
];

pub fn addr_mask() -> U {
    U::pow2(160).sub(U::ONE)
}

fn field_mask(bytes: usize) -> U {
    if bytes >= 32 {
        U::MAX
    } else {
        U::pow2(8 * bytes as u32).sub(U::ONE)
    }
}

/// calldata word `i` (after the selector)
fn arg(i: usize) -> Vec<Tok> {
    vec![p(4 + 32 * i as u64), o(op::CALLDATALOAD)]
}

/// value on the stack -> masked value
fn and_mask(m: U, sp: &Spelling, value: Vec<Tok>) -> Vec<Tok> {
    let mut t = Vec::new();
    if sp.mask_first {
        t.push(pu(m));
        t.extend(value);
    } else {
        t.extend(value);
        t.push(pu(m));
    }
    t.push(o(op::AND));
    t
}

fn ret_top() -> Vec<Tok> {
    vec![p(0), o(op::MSTORE), p(0x20), p(0), o(op::RETURN)]
}

/// Pushes the storage key of a mapping element; uses calldata words from `first_arg` on. Returns the tokens and
/// the number of calldata words consumed.
fn mapping_key(slot: U, keys: &[KeyKind], sp: &Spelling, first_arg: usize) -> (Vec<Tok>, usize) {
    let mut t = Vec::new();
    for (i, k) in keys.iter().enumerate() {
        let key = match k {
            KeyKind::Address => and_mask(addr_mask(), sp, arg(first_arg + i)),
            KeyKind::Word => arg(first_arg + i),
            KeyKind::Const => vec![p(5 + i as u64)],
        };
        if i == 0 {
            if sp.mask_first {
                // solc emits both orders of the two scratch-space stores
                t.extend([pu(slot), p(0x20), o(op::MSTORE)]);
                t.extend(key);
                t.extend([p(0), o(op::MSTORE)]);
            } else {
                t.extend(key);
                t.extend([p(0), o(op::MSTORE), pu(slot), p(0x20), o(op::MSTORE)]);
            }
        } else {
            // the previous hash is on the stack: it is the "slot" of the next level
            t.extend([p(0x20), o(op::MSTORE)]);
            t.extend(key);
            t.extend([p(0), o(op::MSTORE)]);
        }
        t.extend([p(0x40), p(0), o(op::SHA3)]);
    }
    (t, keys.len())
}

fn array_key(slot: U, sp: &Spelling, index_arg: usize, folded: bool) -> Vec<Tok> {
    let hash = if folded {
        // minimal-width push, as the optimiser emits it (a digest with a zero top byte fits a PUSH31)
        vec![pu(crate::util::keccak_words(&[slot]))]
    } else {
        vec![pu(slot), p(0), o(op::MSTORE), p(0x20), p(0), o(op::SHA3)]
    };
    let mut t = Vec::new();
    if sp.index_first {
        t.extend(arg(index_arg));
        t.extend(hash);
    } else {
        t.extend(hash);
        t.extend(arg(index_arg));
    }
    t.push(o(op::ADD));
    t
}

/// read of field (byte offset k, byte width w) of the word at `key` (tokens that push the key)
fn packed_read(key: Vec<Tok>, k: usize, w: usize, sp: &Spelling) -> Vec<Tok> {
    let bits = 8 * k as u32;
    let mut load = key;
    load.push(o(op::SLOAD));
    let shifted: Vec<Tok> = if k == 0 {
        if sp.shift_zero {
            let mut t = load;
            t.extend([p(0), o(op::SHR)]);
            t
        } else {
            load
        }
    } else if sp.div_read {
        // div(sload, 2^k): divisor pushed first, dividend on top
        let mut t = vec![pu(U::pow2(bits))];
        t.extend(load);
        t.push(o(op::DIV));
        t
    } else {
        let mut t = load;
        t.extend([p(bits as u64), o(op::SHR)]);
        t
    };
    if w >= 32 {
        return shifted;
    }
    and_mask(field_mask(w), sp, shifted)
}

/// write of `value` into field (k, w) of the word at `key`
fn packed_write(key: Vec<Tok>, value: Vec<Tok>, k: usize, w: usize, sp: &Spelling) -> Vec<Tok> {
    let bits = 8 * k as u32;
    let m = field_mask(w);
    let shifted_mask = if k == 0 { m } else { m.shl_n(bits) };
    // new bits
    let mut new_bits: Vec<Tok> = if k == 0 {
        and_mask(m, sp, value)
    } else if sp.mul_write {
        let mut t = and_mask(m, sp, value);
        t.extend([pu(U::pow2(bits)), o(op::MUL)]);
        t
    } else {
        let mut v = value;
        v.extend([p(bits as u64), o(op::SHL)]);
        and_mask(shifted_mask, sp, v)
    };
    // old bits: and(sload(key), not(mask << k)) -- solc pushes the inverted constant directly
    let mut old = key.clone();
    old.push(o(op::SLOAD));
    let old_bits = if sp.mul_write {
        // optimised solc builds the inverted mask with NOT (asset/PackedEncodings.json)
        let mut t = vec![pu(shifted_mask), o(op::NOT)];
        t.extend(old);
        t.push(o(op::AND));
        t
    } else {
        and_mask(shifted_mask.not(), sp, old)
    };
    let mut t = Vec::new();
    t.append(&mut new_bits);
    t.extend(old_bits);
    t.push(o(op::OR));
    t.extend(key);
    t.push(o(op::SSTORE));
    t
}

/// One store that writes ALL fields of a packed word at once: the OR of every field's shifted bits (plus the
/// untouched old bits when the fields do not cover the word). `accumulate` selects the association of the ORs:
/// push every term and OR at the end, or keep a running accumulator (t0 t1 OR t2 OR ...).
fn packed_write_all(key: Vec<Tok>, fields: &[(usize, usize)], sp: &Spelling, accumulate: bool) -> Vec<Tok> {
    let mut terms: Vec<Vec<Tok>> = Vec::new();
    let mut covered = U::ZERO;
    for (i, (k, w)) in fields.iter().enumerate() {
        let bits = 8 * *k as u32;
        let m = field_mask(*w);
        let shifted_mask = if *k == 0 { m } else { m.shl_n(bits) };
        covered = covered.or(shifted_mask);
        let term = if *k == 0 {
            and_mask(m, sp, arg(i))
        } else if sp.mul_write {
            let mut t = and_mask(m, sp, arg(i));
            t.extend([pu(U::pow2(bits)), o(op::MUL)]);
            t
        } else {
            let mut v = arg(i);
            v.extend([p(bits as u64), o(op::SHL)]);
            and_mask(shifted_mask, sp, v)
        };
        terms.push(term);
    }
    if covered != U::MAX {
        let mut old = key.clone();
        old.push(o(op::SLOAD));
        terms.push(and_mask(covered.not(), sp, old));
    }
    let mut t = Vec::new();
    if accumulate {
        for (i, term) in terms.into_iter().enumerate() {
            t.extend(term);
            if i > 0 {
                t.push(o(op::OR));
            }
        }
    } else {
        let n = terms.len();
        for term in terms {
            t.extend(term);
        }
        for _ in 1..n {
            t.push(o(op::OR));
        }
    }
    t.extend(key);
    t.push(o(op::SSTORE));
    t
}

/// The branch bodies (each ends the execution) that access `var` in the given mode.
pub fn fragments(var: &Var, mode: Mode, sp: &Spelling) -> Vec<Vec<Tok>> {
    let mut out: Vec<Vec<Tok>> = Vec::new();
    let packed = matches!(var.kind, Kind::Packed(_));
    let reads = mode == Mode::Read || mode == Mode::Both;
    let writes = mode == Mode::Write || mode == Mode::Both || (mode == Mode::WriteAll && !packed);
    let s = var.slot;
    match &var.kind {
        Kind::Word => {
            if reads {
                let mut t = vec![pu(s), o(op::SLOAD)];
                t.extend(ret_top());
                out.push(t);
            }
            if writes {
                let mut t = arg(0);
                t.extend([pu(s), o(op::SSTORE), o(op::STOP)]);
                out.push(t);
            }
        }
        Kind::AddressWord => {
            if reads {
                let mut loaded = vec![pu(s), o(op::SLOAD)];
                if sp.shift_zero {
                    loaded.extend([p(0), o(op::SHR)]);
                }
                let mut t = and_mask(addr_mask(), sp, loaded);
                t.extend(ret_top());
                out.push(t);
            }
            if writes {
                let mut t = packed_write(vec![pu(s)], arg(0), 0, 20, sp);
                t.push(o(op::STOP));
                out.push(t);
            }
        }
        Kind::Mapping(keys, address_value) => {
            if reads {
                let (mut t, _) = mapping_key(s, keys, sp, 0);
                t.push(o(op::SLOAD));
                if *address_value {
                    if sp.shift_zero {
                        t.extend([p(0), o(op::SHR)]);
                    }
                    t = and_mask(addr_mask(), sp, t);
                }
                t.extend(ret_top());
                out.push(t);
            }
            if writes {
                let (key, n) = mapping_key(s, keys, sp, 0);
                let mut t = Vec::new();
                if *address_value {
                    // or(and(sload(key), not(mask)), and(value, mask)) with the key recomputed as solc does via DUP
                    t.extend(key.clone());
                    // stack: key
                    t.extend(and_mask(addr_mask(), sp, arg(n)));
                    // stack: key, newbits
                    t.extend([o(op::DUP2), o(op::SLOAD)]);
                    t.extend([pu(addr_mask().not()), o(op::AND), o(op::OR)]);
                    // stack: key, word
                    t.extend([o(op::SWAP1), o(op::SSTORE)]);
                } else {
                    t.extend(arg(n));
                    t.extend(key);
                    t.push(o(op::SSTORE));
                }
                t.push(o(op::STOP));
                out.push(t);
            }
        }
        Kind::DynArray | Kind::DynArrayFolded => {
            let folded = var.kind == Kind::DynArrayFolded;
            if reads {
                let mut t = array_key(s, sp, 0, folded);
                t.push(o(op::SLOAD));
                t.extend(ret_top());
                out.push(t);
            }
            if writes {
                let mut t = arg(1);
                t.extend(array_key(s, sp, 0, folded));
                t.extend([o(op::SSTORE), o(op::STOP)]);
                out.push(t);
            }
        }
        Kind::Packed(fields) => {
            for (k, w) in fields {
                if reads {
                    let mut t = packed_read(vec![pu(s)], *k, *w, sp);
                    t.extend(ret_top());
                    out.push(t);
                }
                if writes {
                    let mut t = packed_write(vec![pu(s)], arg(0), *k, *w, sp);
                    t.push(o(op::STOP));
                    out.push(t);
                }
            }
            if mode == Mode::WriteAll {
                let mut t = packed_write_all(vec![pu(s)], fields, sp, sp.index_first);
                t.push(o(op::STOP));
                out.push(t);
            }
        }
    }
    out
}

#[derive(Clone, Copy, Debug, PartialEq, Eq, Hash)]
pub enum Dispatcher {
    /// selector compare + JUMPI per branch
    Selector,
    /// same, branches laid out in reverse order
    Reversed,
    /// every branch reached through two chained JUMPIs
    Chained,
    /// every branch behind a conditional jump whose condition is a literal (1 for even branches, 0 for odd ones): the
    /// symbolic machine takes both outcomes of every conditional jump whatever the condition
    LiteralGuards,
}

/// First token of a branch body that must not start with the POP of the dispatcher's selector word.
pub const KEEP_SELECTOR: Tok = Tok::Mark(255);

/// Places the branch bodies behind a dispatcher.
pub fn program(branches: &[Vec<Tok>], d: Dispatcher) -> Vec<u8> {
    let n = branches.len();
    assert!(n < 100);
    let mut t: Vec<Tok> = vec![p(0), o(op::CALLDATALOAD), p(0xe0), o(op::SHR)];
    for i in 0..n {
        let sel = U::from_u64(0xa000_0000 + i as u64);
        if d == Dispatcher::LiteralGuards {
            t.extend([Tok::PushN(1, U::from_u64(1 - (i as u64 & 1))), Tok::PushLabel(i as u8, U::ZERO), o(op::JUMPI)]);
            continue;
        }
        t.extend([o(op::DUP1), Tok::PushN(4, sel), o(op::EQ)]);
        match d {
            Dispatcher::Chained => t.push(Tok::PushLabel(100 + i as u8, U::ZERO)),
            _ => t.push(Tok::PushLabel(i as u8, U::ZERO)),
        }
        t.push(o(op::JUMPI));
    }
    t.push(o(op::STOP));
    if d == Dispatcher::Chained {
        for i in 0..n {
            // trampoline: a second conditional jump (on callvalue) into the branch, else stop
            t.push(Tok::Label(100 + i as u8));
            t.extend([o(op::CALLVALUE), o(op::ISZERO), Tok::PushLabel(i as u8, U::ZERO), o(op::JUMPI), o(op::STOP)]);
        }
    }
    let order: Vec<usize> = match d {
        Dispatcher::Reversed => (0..n).rev().collect(),
        _ => (0..n).collect(),
    };
    for i in order {
        t.push(Tok::Label(i as u8));
        if branches[i].first() == Some(&KEEP_SELECTOR) {
            // a body that consumes the word the dispatcher left on the stack (an internal function with a stack argument)
            t.extend(branches[i].iter().skip(1).cloned());
            continue;
        }
        t.push(o(op::POP)); // the selector left on the stack by the dispatcher
        t.extend(branches[i].iter().cloned());
        // every body ends with RETURN or STOP already
    }
    assemble(&t)
}

/// All splits of 32 bytes into `n` contiguous fields at byte boundaries.
pub fn splits(n: usize) -> Vec<Vec<(usize, usize)>> {
    fn rec(start: usize, left: usize, cur: &mut Vec<(usize, usize)>, out: &mut Vec<Vec<(usize, usize)>>) {
        if left == 1 {
            cur.push((start, 32 - start));
            out.push(cur.clone());
            cur.pop();
            return;
        }
        // leave at least one byte for each remaining field
        for w in 1..=(32 - start - (left - 1)) {
            cur.push((start, w));
            rec(start + w, left - 1, cur, out);
            cur.pop();
        }
    }
    let mut out = Vec::new();
    rec(0, n, &mut Vec::new(), &mut out);
    out
}
