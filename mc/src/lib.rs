pub mod asm;
pub mod c09;
pub mod c10;
pub mod corpus;
pub mod infra;
pub mod obs;
pub mod u256;
pub mod util;

use infra::Check;

pub fn registry() -> Vec<Box<dyn Check>> {
    vec![Box::new(c09::C09), Box::new(c10::C10)]
}
pub mod u256_selfcheck;
