pub mod asm;
pub mod c01;
pub mod c02;
pub mod c03;
pub mod c04;
pub mod c05;
pub mod c06;
pub mod c07;
pub mod c08;
pub mod c09;
pub mod c10;
pub mod c11;
pub mod c12;
pub mod c13;
pub mod c14;
pub mod c15;
pub mod c16;
pub mod c17;
pub mod c18;
pub mod c19;
pub mod c20;
pub mod corpus;
pub mod idioms;
pub mod infra;
pub mod probe;
pub mod prog;
pub mod ref_evm;
pub mod sched;
pub mod templates;
pub mod vmrun;
pub mod obs;
pub mod u256;
pub mod unif;
pub mod util;

/// The harness's allocator counts, per thread, the bytes the code under test asks for: a deterministic measure of the work
/// one analysis does (C03 compares it across program lengths; wall-clock time would depend on the machine's load).
pub mod alloc_count {
    use std::alloc::{GlobalAlloc, Layout, System};
    use std::cell::Cell;
    thread_local! { static BYTES: Cell<u64> = const { Cell::new(0) }; }
    pub struct Counting;
    unsafe impl GlobalAlloc for Counting {
        unsafe fn alloc(&self, l: Layout) -> *mut u8 {
            let _ = BYTES.try_with(|b| b.set(b.get().wrapping_add(l.size() as u64)));
            System.alloc(l)
        }
        unsafe fn dealloc(&self, p: *mut u8, l: Layout) {
            System.dealloc(p, l)
        }
        unsafe fn alloc_zeroed(&self, l: Layout) -> *mut u8 {
            let _ = BYTES.try_with(|b| b.set(b.get().wrapping_add(l.size() as u64)));
            System.alloc_zeroed(l)
        }
        unsafe fn realloc(&self, p: *mut u8, l: Layout, n: usize) -> *mut u8 {
            let _ = BYTES.try_with(|b| b.set(b.get().wrapping_add(n.saturating_sub(l.size()) as u64)));
            System.realloc(p, l, n)
        }
    }
    /// Bytes requested by this thread so far.
    pub fn bytes() -> u64 {
        BYTES.with(|b| b.get())
    }
}

#[global_allocator]
static ALLOC: alloc_count::Counting = alloc_count::Counting;

use infra::Check;

pub fn registry() -> Vec<Box<dyn Check>> {
    vec![Box::new(c01::C01), Box::new(c02::C02), Box::new(c03::C03), Box::new(c04::C04), Box::new(c05::C05), Box::new(c06::C06), Box::new(c07::C07), Box::new(c08::C08), Box::new(c09::C09), Box::new(c10::C10), Box::new(c11::C11), Box::new(c12::C12), Box::new(c13::C13), Box::new(c14::C14), Box::new(c15::C15), Box::new(c16::C16), Box::new(c17::C17), Box::new(c18::C18), Box::new(c19::C19), Box::new(c20::C20)]
}
pub mod u256_selfcheck;
