pub mod asm;
pub mod c09;
pub mod c10;
pub mod c16;
pub mod c19;
pub mod c20;
pub mod corpus;
pub mod infra;
pub mod obs;
pub mod u256;
pub mod util;

use infra::Check;

pub fn registry() -> Vec<Box<dyn Check>> {
    vec![Box::new(c09::C09), Box::new(c10::C10), Box::new(c16::C16), Box::new(c19::C19), Box::new(c20::C20)]
}
pub mod u256_selfcheck;
