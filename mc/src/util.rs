//! Small shared helpers.

use crate::u256::U;
use sha3::{Digest, Keccak256};
use std::collections::hash_map::DefaultHasher;
use std::hash::{Hash, Hasher};

pub fn keccak_bytes(data: &[u8]) -> U {
    let mut h = Keccak256::new();
    h.update(data);
    let out = h.finalize();
    U::from_be_slice(&out)
}

pub fn keccak_words(words: &[U]) -> U {
    let mut data = Vec::new();
    for w in words {
        data.extend_from_slice(&w.to_be_bytes());
    }
    keccak_bytes(&data)
}

/// Deterministic 64-bit hash (fixed-key SipHash).
pub fn h64<T: Hash + ?Sized>(x: &T) -> u64 {
    let mut h = DefaultHasher::new();
    x.hash(&mut h);
    h.finish()
}

pub fn hex(bytes: &[u8]) -> String {
    hex::encode(bytes)
}

pub fn unhex(s: &str) -> Vec<u8> {
    hex::decode(s.trim().trim_start_matches("0x")).expect("bad hex")
}

/// All permutations of 0..n in lexicographic order (n small).
pub fn permutations(n: usize) -> Vec<Vec<usize>> {
    fn rec(cur: &mut Vec<usize>, used: &mut Vec<bool>, n: usize, out: &mut Vec<Vec<usize>>) {
        if cur.len() == n {
            out.push(cur.clone());
            return;
        }
        for i in 0..n {
            if !used[i] {
                used[i] = true;
                cur.push(i);
                rec(cur, used, n, out);
                cur.pop();
                used[i] = false;
            }
        }
    }
    let mut out = Vec::new();
    rec(&mut Vec::new(), &mut vec![false; n], n, &mut out);
    out
}

/// Subject-side 256-bit constant from a reference value.
pub fn kw(u: U) -> storage_layout_extractor::vm::value::known::KnownWord {
    storage_layout_extractor::vm::value::known::KnownWord::from_be_bytes(u.to_be_bytes())
}

pub fn from_kw(k: &storage_layout_extractor::vm::value::known::KnownWord) -> U {
    U::from_be_bytes(k.bytes_be())
}

pub fn from_ethnum(x: ethnum::U256) -> U {
    U::from_be_bytes(x.to_be_bytes())
}

pub fn to_ethnum(u: U) -> ethnum::U256 {
    ethnum::U256::from_be_bytes(u.to_be_bytes())
}
