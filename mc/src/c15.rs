//! C15 — compatible evidence joins to its most specific type; contradictions conflict (judgement sets generated
//! from a hidden ground truth, evaluated on the real unifier against a reference word lattice).

use crate::infra::*;
use crate::sched::{extend, plan_from_json, plan_json};
use crate::unif::*;
use serde_json::{json, Map, Value};
use storage_layout_extractor as sle;
use sle::tc::expression::{TypeExpression as TE, WordUse};

/// Ground-truth word types: (width, chain of usages from weakest to the true one).
#[derive(Clone, Debug)]
pub struct Truth {
    pub name: &'static str,
    pub width: usize,
    pub chain: Vec<WordUse>,
}

pub fn truths() -> Vec<Truth> {
    use WordUse::*;
    vec![
        // degenerate and odd widths: a width is a plain number of bits, none of its values means "unknown"
        Truth { name: "uint0", width: 0, chain: vec![Bytes, Numeric, UnsignedNumeric] },
        Truth { name: "uint1", width: 1, chain: vec![Bytes, Numeric, UnsignedNumeric] },
        Truth { name: "int255", width: 255, chain: vec![Bytes, Numeric, SignedNumeric] },
        Truth { name: "uint8", width: 8, chain: vec![Bytes, Numeric, UnsignedNumeric] },
        Truth { name: "uint64", width: 64, chain: vec![Bytes, Numeric, UnsignedNumeric] },
        Truth { name: "uint256", width: 256, chain: vec![Bytes, Numeric, UnsignedNumeric] },
        Truth { name: "int64", width: 64, chain: vec![Bytes, Numeric, SignedNumeric] },
        Truth { name: "address", width: 160, chain: vec![Bytes, Address] },
        // an address that is also used numerically: the tool's documented compatibility table ("addresses are
        // often used numerically") puts Address above Numeric and Unsigned
        Truth { name: "address-used-numerically", width: 160, chain: vec![Bytes, Numeric, UnsignedNumeric, Address] },
        Truth { name: "bool", width: 8, chain: vec![Bytes, Bool] },
        Truth { name: "bytes32", width: 256, chain: vec![Bytes] },
        Truth { name: "selector", width: 32, chain: vec![Bytes, Selector] },
        Truth { name: "function", width: 192, chain: vec![Bytes, Function] },
    ]
}

/// Weakenings of a word truth: (width known?, position on the chain). Fixed-width usages may arrive with or without their width (round 8).
pub fn weakenings(t: &Truth) -> Vec<J> {
    let mut v = vec![J::Any];
    for (i, u) in t.chain.iter().enumerate() {
        let fixed = u.size().is_some();
        // round 8: a sized usage may also arrive without its width (`TE::word(None, Address)` can be built through
        // the public constructors even though no lifting rule emits it)
        let _ = fixed;
        v.push(J::Word(None, usage_index(*u)));
        v.push(J::Word(Some(t.width), usage_index(*u)));
        let _ = i;
    }
    v
}

/// The join of a set of weakenings of one truth, defined on the chain (no reference to the tool's merge table).
pub fn join(t: &Truth, evidence: &[J]) -> Option<(Option<usize>, WordUse)> {
    let mut width = None;
    let mut pos: Option<usize> = None;
    for e in evidence {
        if let J::Word(w, u) = e {
            if w.is_some() {
                width = *w;
            }
            let p = t.chain.iter().position(|x| *x == USAGES[*u as usize]).unwrap();
            pos = Some(pos.map_or(p, |q: usize| q.max(p)));
        }
    }
    pos.map(|p| (width, t.chain[p]))
}

/// Plainly contradictory judgements for a word truth.
pub fn contradictions(t: &Truth) -> Vec<(J, &'static str)> {
    use WordUse::*;
    let mut v: Vec<(J, &'static str)> = Vec::new();
    let other_width = if t.width == 128 { 64 } else { 128 };
    v.push((J::Word(Some(other_width), usage_index(Bytes)), "different-width"));
    if t.width != 0 {
        v.push((J::Word(Some(0), usage_index(Bytes)), "different-width"));
    }
    let top = *t.chain.last().unwrap();
    match top {
        UnsignedNumeric | Address => v.push((J::Word(None, usage_index(SignedNumeric)), "signed-vs-unsigned-or-address")),
        SignedNumeric => v.push((J::Word(None, usage_index(UnsignedNumeric)), "signed-vs-unsigned-or-address")),
        Bool => v.push((J::Word(None, usage_index(Numeric)), "bool-vs-numeric")),
        _ => {}
    }
    v.push((J::Mapping(1, 2), "mapping-vs-sized-word"));
    v
}

fn subsets(items: &[J], max: usize) -> Vec<Vec<J>> {
    let mut out = Vec::new();
    fn rec(items: &[J], start: usize, cur: &mut Vec<J>, max: usize, out: &mut Vec<Vec<J>>) {
        if !cur.is_empty() {
            out.push(cur.clone());
        }
        if cur.len() >= max {
            return;
        }
        for i in start..items.len() {
            cur.push(items[i].clone());
            rec(items, i + 1, cur, max, out);
            cur.pop();
        }
    }
    rec(items, 0, &mut Vec::new(), max, &mut out);
    out
}

pub struct Verdict {
    pub key: String,
    pub what: String,
}

#[derive(Clone, Debug)]
pub struct Case {
    pub set: Vec<(usize, J)>,
    pub n: usize,
    /// (variable, expected) where expected = None means "must be a conflict"
    pub expect: Vec<(usize, Option<(Option<usize>, u8)>)>,
    /// groups of variables that must share a class
    pub same: Vec<(usize, usize)>,
    /// (variable, constructor name) that must keep its constructor
    pub shape: Vec<(usize, &'static str)>,
    pub label: String,
}

pub fn check_outcome(c: &Case, out: &Outcome) -> Result<(), Verdict> {
    let r = match out {
        Outcome::Done(r) => r,
        Outcome::Panic(p) => {
            return Err(Verdict {
                key: format!("panic:{}", panic_site(p)),
                what: format!("unification panicked: {p}"),
            })
        }
        Outcome::Skipped => return Ok(()),
        Outcome::OverBudget => {
            return Err(Verdict {
                key: "non-terminating".into(),
                what: "unification exceeded its poll budget".into(),
            })
        }
        Outcome::Error(e) => {
            return Err(Verdict {
                key: "error".into(),
                what: format!("unification failed: {e}"),
            })
        }
    };
    for (v, exp) in &c.expect {
        let got = &r.types[*v];
        match exp {
            Some((w, u)) => {
                let want = TE::word(*w, USAGES[*u as usize]);
                // when no piece of evidence knows the width and the usage has an intrinsic one, filling it in is as
                // specific as leaving it open: both are accepted (don't-care)
                let filled = match (w, USAGES[*u as usize].size()) {
                    (None, Some(sz)) => Some(TE::word(Some(sz), USAGES[*u as usize])),
                    _ => None,
                };
                if got.len() != 1 || (got[0] != want && Some(&got[0]) != filled.as_ref()) {
                    let kind = if got.iter().any(|e| matches!(e, TE::Conflict { .. })) {
                        "conflict-on-compatible-evidence"
                    } else {
                        "not-the-join"
                    };
                    return Err(Verdict {
                        key: format!("{kind}:{}", c.label),
                        what: format!("v{v} should resolve to {want:?} (the join of its evidence) but resolves to {got:?}"),
                    });
                }
            }
            None => {
                if !(got.len() == 1 && matches!(got[0], TE::Conflict { .. })) {
                    return Err(Verdict {
                        key: format!("no-conflict:{}", c.label),
                        what: format!("v{v} has plainly contradictory evidence but resolves to {got:?}"),
                    });
                }
            }
        }
    }
    for (a, b) in &c.same {
        if !r.same(&r.vars[*a], &r.vars[*b]) {
            return Err(Verdict {
                key: format!("components-not-unified:{}", c.label),
                what: format!("v{a} and v{b} must be in one class"),
            });
        }
    }
    for (v, ctor) in &c.shape {
        let got = &r.types[*v];
        let ok = got.len() == 1
            && match (&got[0], *ctor) {
                (TE::Mapping { .. }, "mapping") => true,
                (TE::DynamicArray { .. }, "dyn_array") => true,
                (TE::FixedArray { .. }, "fixed_array") => true,
                _ => false,
            };
        if !ok {
            return Err(Verdict {
                key: format!("structure-lost:{}", c.label),
                what: format!("v{v} should keep its {ctor} structure but resolves to {got:?}"),
            });
        }
    }
    Ok(())
}

/// Word cases for one truth: evidence subsets on v0 and v1 (declared equal), optionally one contradiction.
fn word_cases(t: &Truth, f: &mut dyn FnMut(Case)) {
    let w = weakenings(t);
    let e0s = subsets(&w, 3);
    let mut e1s = subsets(&w, 2);
    e1s.insert(0, vec![]);
    for e0 in &e0s {
        for e1 in &e1s {
            let mut set: Vec<(usize, J)> = e0.iter().map(|j| (0usize, j.clone())).collect();
            let mut all: Vec<J> = e0.clone();
            if !e1.is_empty() {
                set.push((1, J::Equal(0)));
                set.extend(e1.iter().map(|j| (1usize, j.clone())));
                all.extend(e1.iter().cloned());
            }
            let Some((jw, ju)) = join(t, &all) else { continue };
            let mut expect = vec![(0usize, Some((jw, usage_index(ju))))];
            let mut same = vec![];
            if !e1.is_empty() {
                expect.push((1, Some((jw, usage_index(ju)))));
                same.push((0, 1));
            }
            f(Case {
                set: set.clone(),
                n: 3,
                expect,
                same: same.clone(),
                shape: vec![],
                label: format!("compatible:{}", t.name),
            });
            // the same set with exactly one plainly contradictory judgement
            if jw.is_some() || true {
                for (cj, why) in contradictions(t) {
                    // a different width only contradicts when the evidence pins a width; usage contradictions need the top usage present
                    let applies = match why {
                        "different-width" => jw.is_some(),
                        "signed-vs-unsigned-or-address" | "bool-vs-numeric" => ju == *t.chain.last().unwrap() && t.chain.len() > 1,
                        _ => jw.is_some(),
                    };
                    if !applies {
                        continue;
                    }
                    let mut s2 = set.clone();
                    s2.push((0, cj));
                    let mut expect = vec![(0usize, None)];
                    if !e1.is_empty() {
                        expect.push((1, None));
                    }
                    f(Case {
                        set: s2,
                        n: 3,
                        expect,
                        same: same.clone(),
                        shape: vec![],
                        label: format!("contradiction:{why}"),
                    });
                }
            }
        }
    }
}

/// Constructor cases: v0 carries a constructor over components, v3 = v0 carries the same constructor over other
/// component variables; component evidence must be joined through the induced equalities.
fn constructor_cases(slice: usize, thorough: bool, f: &mut dyn FnMut(Case)) {
    let ts = truths();
    let by_name = |n: &str| ts.iter().find(|t| t.name == n).unwrap();
    let comps: Vec<&Truth> = vec![by_name("uint256"), by_name("address"), by_name("bool"), by_name("uint0")];
    for (ci, ctor) in ["mapping", "dyn_array", "fixed_array"].into_iter().enumerate() {
        for (ki, kt) in comps.iter().enumerate() {
            if ci * 4 + ki != slice {
                continue;
            }
            for vt in &comps {
                let wk = weakenings(kt);
                let wv = weakenings(vt);
                for ek in subsets(&wk, 2) {
                    for ev in subsets(&wv, 2) {
                        // v0: C(v1, v2); v3 = v0; v3: C(v4, v5); evidence split between the two sides
                        let mk = |a: usize, b: usize| match ctor {
                            "mapping" => J::Mapping(a, b),
                            "dyn_array" => J::DynArray(b),
                            _ => J::FixedArray(b, 2),
                        };
                        // `Any` ("nothing known") is the weakest evidence about the constructed value itself: on either
                        // side, and on a further variable v6 that is only declared equal
                        for top in 0..8usize {
                        if top != 0 && !thorough && (ek.len() > 1 || ev.len() > 1) {
                            continue;
                        }
                        let mut set = vec![(0usize, mk(1, 2)), (3, J::Equal(0)), (3, mk(4, 5))];
                        if top & 1 != 0 {
                            set.insert(0, (0, J::Any));
                        }
                        if top & 2 != 0 {
                            set.push((3, J::Any));
                        }
                        if top & 4 != 0 {
                            set.push((6, J::Equal(3)));
                            set.push((6, J::Any));
                        }
                        let mut key_all = Vec::new();
                        if ctor == "mapping" {
                            for (i, j) in ek.iter().enumerate() {
                                set.push((if i % 2 == 0 { 1 } else { 4 }, j.clone()));
                                key_all.push(j.clone());
                            }
                        }
                        let mut val_all = Vec::new();
                        for (i, j) in ev.iter().enumerate() {
                            set.push((if i % 2 == 0 { 5 } else { 2 }, j.clone()));
                            val_all.push(j.clone());
                        }
                        let mut expect = Vec::new();
                        let mut same = vec![(0, 3), (2, 5)];
                        if ctor == "mapping" {
                            same.push((1, 4));
                            if let Some((w, u)) = join(kt, &key_all) {
                                expect.push((1, Some((w, usage_index(u)))));
                                expect.push((4, Some((w, usage_index(u)))));
                            }
                        }
                        if let Some((w, u)) = join(vt, &val_all) {
                            expect.push((2, Some((w, usage_index(u)))));
                            expect.push((5, Some((w, usage_index(u)))));
                        }
                        let mut shape = vec![(0, ctor), (3, ctor)];
                        if top & 4 != 0 {
                            same.push((3, 6));
                            shape.push((6, ctor));
                        }
                        f(Case {
                            set: set.clone(),
                            n: 7,
                            expect,
                            same: same.clone(),
                            shape,
                            label: format!("compatible:{ctor}"),
                        });
                        // contradiction: a different constructor or a sized word against the constructor
                        let contra: Vec<(J, &'static str)> = match ctor {
                            "mapping" => vec![(J::DynArray(2), "mapping-vs-array"), (J::Word(Some(256), 0), "mapping-vs-sized-word"), (J::FixedArray(2, 2), "mapping-vs-array")],
                            "dyn_array" => vec![(J::Mapping(1, 2), "mapping-vs-array")],
                            _ => vec![(J::Mapping(1, 2), "mapping-vs-array"), (J::FixedArray(2, 3), "fixed-arrays-of-different-length")],
                        };
                        if ctor == "dyn_array" && top == 0 && ev.len() <= 1 {
                            // two words of different known widths next to the array: the array tolerates either word,
                            // but the two words contradict each other (same variable, and split over the equated pair)
                            for (va, vb) in [(0usize, 0usize), (0, 3), (3, 0)] {
                                for (ua, ub) in [(2u8, 2u8), (0, 2), (4, 5)] {
                                    let mut s2 = set.clone();
                                    let (wa, wb) = if (ua, ub) == (4, 5) { (8, 160) } else { (64, 128) };
                                    s2.push((va, J::Word(Some(wa), ua)));
                                    s2.push((vb, J::Word(Some(wb), ub)));
                                    f(Case {
                                        set: s2,
                                        n: 7,
                                        expect: vec![(0, None), (3, None)],
                                        same: vec![(0, 3)],
                                        shape: vec![],
                                        label: "contradiction:two-widths-next-to-an-array".to_string(),
                                    });
                                }
                            }
                        }
                        for (cj, why) in contra {
                            let mut s2 = set.clone();
                            s2.push((0, cj));
                            f(Case {
                                set: s2,
                                n: 7,
                                expect: vec![(0, None), (3, None)],
                                same: vec![(0, 3)],
                                shape: vec![],
                                label: format!("contradiction:{why}"),
                            });
                        }
                        }
                    }
                }
            }
        }
    }
}

/// Evidence that reaches a component only through a deeper nesting path than its sibling: two flat containers declared
/// equal (so their element variables `shared` and `other` are unified while neither has evidence yet) and two nested
/// containers declared equal whose innermost element on one side is `shared` and on the other side a typed leaf.
fn nested_cases(f: &mut dyn FnMut(Case)) {
    let ts = truths();
    let by_name = |n: &str| ts.iter().find(|t| t.name == n).unwrap().clone();
    for leaf_truth in [by_name("uint64"), by_name("address"), by_name("bool")] {
        for flat in ["mapping", "dyn_array"] {
            for outer in ["mapping", "dyn_array"] {
                for inner in ["mapping", "dyn_array"] {
                    let mk = |c: &str, k: usize, v: usize| if c == "mapping" { J::Mapping(k, v) } else { J::DynArray(v) };
                    // 0,1 flat containers; 2,3 their keys; 4 shared; 5 other; 6,7 outer; 8,9 outer keys; 10,11 inner; 12,13 inner keys; 14 leaf
                    let base = vec![
                        (0usize, mk(flat, 2, 4)),
                        (1, J::Equal(0)),
                        (1, mk(flat, 3, 5)),
                        (6, mk(outer, 8, 10)),
                        (7, J::Equal(6)),
                        (7, mk(outer, 9, 11)),
                        (10, mk(inner, 12, 4)),
                        (11, mk(inner, 13, 14)),
                    ];
                    for ev in subsets(&weakenings(&leaf_truth), 2) {
                        let Some((w, u)) = join(&leaf_truth, &ev) else { continue };
                        let mut set = base.clone();
                        set.extend(ev.iter().map(|j| (14usize, j.clone())));
                        f(Case {
                            set: set.clone(),
                            n: 15,
                            expect: vec![(14, Some((w, usage_index(u)))), (4, Some((w, usage_index(u)))), (5, Some((w, usage_index(u))))],
                            same: vec![(0, 1), (6, 7), (10, 11), (4, 14), (4, 5)],
                            shape: vec![(0, flat), (6, outer), (10, inner)],
                            label: "compatible:nested".to_string(),
                        });
                        // a contradictory width arrives at `other`, the sibling that only meets the leaf two levels down
                        if let Some(w) = w {
                            let mut s2 = set.clone();
                            s2.push((5, J::Word(Some(if w == 128 { 64 } else { 128 }), 0)));
                            f(Case {
                                set: s2,
                                n: 15,
                                expect: vec![(5, None), (4, None), (14, None)],
                                same: vec![(4, 5)],
                                shape: vec![],
                                label: "contradiction:different-width".to_string(),
                            });
                        }
                    }
                }
            }
        }
    }
}

/// Two towers of `d` nested containers that are declared equal only at the top: the evidence at the two innermost
/// elements meets `d` unification rounds later. Depths go well beyond what any contract nests.
fn tower_cases(f: &mut dyn FnMut(Case)) {
    let ts = truths();
    let truth = ts.iter().find(|t| t.name == "uint64").unwrap().clone();
    for d in [1usize, 2, 3, 5, 8, 13, 21, 30, 31, 32, 33, 34, 48, 64, 100] {
        for kind in ["mapping", "dyn_array", "alternating"] {
            let a = |i: usize| i;
            let b = |i: usize| d + 1 + i;
            let ka = |i: usize| 2 * (d + 1) + i;
            let kb = |i: usize| 2 * (d + 1) + d + i;
            let n = 2 * (d + 1) + 2 * d;
            let kind_at = |i: usize| match kind {
                "alternating" => if i % 2 == 0 { "mapping" } else { "dyn_array" },
                k => k,
            };
            let mut base: Vec<(usize, J)> = Vec::new();
            let mut same = Vec::new();
            let mut shape: Vec<(usize, &'static str)> = Vec::new();
            for i in 0..d {
                let k = kind_at(i);
                base.push((a(i), if k == "mapping" { J::Mapping(ka(i), a(i + 1)) } else { J::DynArray(a(i + 1)) }));
                base.push((b(i), if k == "mapping" { J::Mapping(kb(i), b(i + 1)) } else { J::DynArray(b(i + 1)) }));
                same.push((a(i), b(i)));
                if k == "mapping" {
                    same.push((ka(i), kb(i)));
                }
                shape.push((a(i), if k == "mapping" { "mapping" } else { "dyn_array" }));
            }
            same.push((a(d), b(d)));
            base.push((b(0), J::Equal(a(0))));
            for ev in subsets(&weakenings(&truth), 2) {
                let Some((w, u)) = join(&truth, &ev) else { continue };
                // the first piece of evidence sits at the bottom of one tower, the others at the bottom of the other
                let mut set = base.clone();
                for (i, j) in ev.iter().enumerate() {
                    set.push((if i == 0 { a(d) } else { b(d) }, j.clone()));
                }
                f(Case {
                    set: set.clone(),
                    n,
                    expect: vec![(a(d), Some((w, usage_index(u)))), (b(d), Some((w, usage_index(u))))],
                    same: same.clone(),
                    shape: shape.clone(),
                    label: format!("compatible:tower-{d}"),
                });
                if let Some(w) = w {
                    let mut s2 = set.clone();
                    s2.push((b(d), J::Word(Some(if w == 128 { 64 } else { 128 }), 0)));
                    f(Case {
                        set: s2,
                        n,
                        expect: vec![(a(d), None), (b(d), None)],
                        same: vec![(a(d), b(d))],
                        shape: vec![],
                        label: format!("contradiction:tower-{d}"),
                    });
                }
            }
        }
    }
}

pub struct C15;

fn cases_of_chunk(chunk: usize, thorough: bool, f: &mut dyn FnMut(Case)) {
    let ts = truths();
    if chunk < ts.len() {
        word_cases(&ts[chunk], f);
    } else if chunk < ts.len() + 12 {
        constructor_cases(chunk - ts.len(), thorough, f);
    } else if chunk == ts.len() + 12 {
        nested_cases(f);
    } else {
        tower_cases(f);
    }
}

impl Check for C15 {
    fn id(&self) -> &'static str {
        "C15"
    }
    fn level(&self) -> &'static str {
        "model_checking"
    }
    fn chunks(&self, _tier: Tier) -> usize {
        truths().len() + 14
    }
    fn run_chunk(&self, tier: Tier, chunk: usize, ctx: &mut Ctx) {
        cases_of_chunk(chunk, tier.thorough(), &mut |c: Case| {
            ctx.case(|| json!({"judgements": set_json(&c.set), "n": c.n, "plan": [], "label": c.label}));
            ctx.count("judgement_sets", 1);
            ctx.count(if c.label.starts_with("compatible") { "compatible_sets" } else { "contradictory_sets" }, 1);
            ctx.distinct("nontrivial", crate::util::h64(&format!("{:?}", c.set)));
            let (out, log) = run(c.n, &c.set, &Vec::new());
            ctx.count("unifications", 1);
            if let Err(v) = check_outcome(&c, &out) {
                ctx.violation(
                    v.key,
                    format!("{} [{}]", v.what, show_set(&c.set)),
                    json!({"judgements": set_json(&c.set), "n": c.n, "plan": [], "expect": expect_json(&c), "same": c.same, "shape": c.shape.iter().map(|(v, s)| json!([v, s])).collect::<Vec<_>>(), "label": c.label}),
                );
                return;
            }
            if c.set.len() >= 4 && c.label.starts_with("compatible") {
                ctx.sample(|| json!({"judgements": show_set(&c.set), "label": c.label, "verdict": "resolves to the join of the evidence"}));
            }
            if c.n > 40 {
                // deep towers: the canonical order only (a deviation at each of several hundred order points would repeat
                // a long unification that many times)
                return;
            }
            let filter: &dyn Fn(&str) -> bool = if tier.thorough() { &|_| true } else { &|s| s.starts_with("unify.") || s == "tc.variables" };
            for pl in extend(&Vec::new(), &log, filter) {
                ctx.count("unifications", 1);
                ctx.count("deviating_schedules", 1);
                let (o2, _) = run(c.n, &c.set, &pl);
                if let Err(v) = check_outcome(&c, &o2) {
                    ctx.violation(
                        v.key,
                        format!("{} under plan {} [{}]", v.what, plan_json(&pl), show_set(&c.set)),
                        json!({"judgements": set_json(&c.set), "n": c.n, "plan": plan_json(&pl), "expect": expect_json(&c), "same": c.same, "shape": c.shape.iter().map(|(v, s)| json!([v, s])).collect::<Vec<_>>(), "label": c.label}),
                    );
                    break;
                }
            }
        });
    }
    fn coverage(&self, _tier: Tier, total: &Ctx) -> Map<String, Value> {
        let mut m = mc_coverage(
            total,
            total.get("judgement_sets").max(1),
            total.get("unifications").max(1),
            total.get("unifications"),
            "hidden ground truths: 13 word types (uint0/1/8/64/256, int64/255, address, address used numerically, bool, bytes32, selector, function) and mapping / dynamic \
             array / fixed array over component variables of type uint256, address, bool, uint0. Evidence = every subset of <= 3 weakenings \
             of the truth on one variable plus every subset of <= 2 on a second variable declared equal (width known or not, usage \
             anywhere below the true one on its chain: Bytes < Numeric < Unsigned | Signed, Bytes < Numeric < Unsigned < Address, Bytes < Address | Bool | Selector | \
             Function), constructors stated twice through an equality with the component evidence split between the two sides, crossed with \
             `Any` on either side and on a third variable that is only declared equal; nested containers (two levels of mapping / dynamic array) whose innermost element is shared with a flat container declared equal to another, so that evidence arrives two rounds after the equality (quick tier: for component evidence of at most one judgement per component); two towers of 1 .. 100 nested mappings / dynamic arrays / alternating containers declared equal only at the top, with the evidence at the two innermost elements (depths above 8 under the canonical order only). \
             Expected: the join computed on the chains (not with the tool's merge table), never a conflict, constructors kept with \
             unified components. Then the same sets with exactly one plainly contradictory judgement (different width incl. width 0, signed vs \
             unsigned / address, bool vs numeric, mapping vs array, mapping vs sized word, fixed arrays of different length, two words of different widths next to a dynamic array): the class \
             must be a conflict. Every set runs on the real unifier under the canonical order and every single deviation at the \
             unification order points. states = judgement sets; transitions = unifications executed",
            true,
        );
        m.insert("evaluations".into(), json!(total.get("unifications")));
        m.insert("distinct_nontrivial".into(), json!(total.distinct_count("nontrivial")));
        m
    }
    fn assumptions(&self, _tier: Tier) -> Vec<String> {
        vec![
            "Address above Numeric / Unsigned follows the tool's documented compatibility table (expression.rs: \"Addresses are often used numerically\"); Signed against Address is a contradiction".into(),
            "a sized usage (address, bool, selector, function) may arrive without its width; when no evidence of a class knows the width, a result that fills in the usage's intrinsic width is accepted like one that leaves it open".into(),
            "mixes the statement calls neither plainly compatible nor plainly contradictory (dynamic bytes or arrays against small words, packed against words) are not generated".into(),
        ]
    }
    fn replay(&self, replay: &Value) -> bool {
        let c = &replay["case"];
        let set = set_from_json(&c["judgements"]);
        let n = c["n"].as_u64().unwrap_or(3) as usize;
        let plan = plan_from_json(&c["plan"]);
        println!("judgements: {}\nplan: {}", show_set(&set), plan_json(&plan));
        let expect = c["expect"]
            .as_array()
            .map(|a| {
                a.iter()
                    .map(|e| {
                        let v = e[0].as_u64().unwrap() as usize;
                        let x = if e[1].is_null() { None } else { Some((e[1][0].as_u64().map(|w| w as usize), e[1][1].as_u64().unwrap() as u8)) };
                        (v, x)
                    })
                    .collect()
            })
            .unwrap_or_default();
        let same = c["same"].as_array().map(|a| a.iter().map(|p| (p[0].as_u64().unwrap() as usize, p[1].as_u64().unwrap() as usize)).collect()).unwrap_or_default();
        let shape: Vec<(usize, &'static str)> = c["shape"]
            .as_array()
            .map(|a| {
                a.iter()
                    .map(|p| {
                        let s: &'static str = match p[1].as_str().unwrap_or("") {
                            "mapping" => "mapping",
                            "dyn_array" => "dyn_array",
                            _ => "fixed_array",
                        };
                        (p[0].as_u64().unwrap() as usize, s)
                    })
                    .collect()
            })
            .unwrap_or_default();
        let case = Case {
            set: set.clone(),
            n,
            expect,
            same,
            shape,
            label: c["label"].as_str().unwrap_or("").to_string(),
        };
        let (out, _) = run(n, &set, &plan);
        if let Outcome::Done(r) = &out {
            for (i, t) in r.types.iter().enumerate() {
                println!("v{i}: {t:?}");
            }
        }
        match check_outcome(&case, &out) {
            Ok(()) => false,
            Err(v) => {
                println!("observed: {}: {}", v.key, v.what);
                true
            }
        }
    }
}

fn expect_json(c: &Case) -> Value {
    json!(c
        .expect
        .iter()
        .map(|(v, e)| match e {
            Some((w, u)) => json!([v, [w, u]]),
            None => json!([v, null]),
        })
        .collect::<Vec<_>>())
}

#[allow(dead_code)]
fn _unused(_: sle::vm::Config) {}
