//! Enumeration of token sequences (E2): all sequences up to a length over an alphabet of `n` tokens, split into
//! chunks by their first two tokens.

/// Number of chunks for an alphabet of `n` tokens.
pub fn seq_chunks(n: usize) -> usize {
    n * n + 1
}

/// Visits every sequence of the chunk, shortest first along each branch. The callback returns whether the
/// sequence may be extended (prefix-closed pruning); it is called exactly once per sequence.
pub fn run_seq_chunk(n: usize, max_len: usize, chunk: usize, f: &mut dyn FnMut(&[usize]) -> bool) {
    if chunk == n * n {
        for a in 0..n {
            f(&[a]);
        }
        return;
    }
    if max_len < 2 {
        return;
    }
    let mut cur = vec![chunk / n, chunk % n];
    // the length-1 prefix must itself be extendable; the caller's pruning is re-evaluated on it silently
    fn rec(n: usize, max_len: usize, cur: &mut Vec<usize>, f: &mut dyn FnMut(&[usize]) -> bool) {
        if !f(cur) || cur.len() >= max_len {
            return;
        }
        for t in 0..n {
            cur.push(t);
            rec(n, max_len, cur, f);
            cur.pop();
        }
    }
    rec(n, max_len, &mut cur, f);
}

/// Total number of sequences of length 1..=max_len (without pruning).
pub fn seq_count(n: usize, max_len: usize) -> u64 {
    let mut t = 0u64;
    let mut p = 1u64;
    for _ in 0..max_len {
        p *= n as u64;
        t += p;
    }
    t
}
