//! C12 — returned layouts are ordered and every entry lies inside its 256-bit slot.

use crate::asm::{assemble, o, op, p, pu, Tok};
use crate::infra::*;
use crate::obs::{analyze, lazy, layout_canon, Class};
use crate::prog::{run_seq_chunk, seq_chunks};
use crate::templates::{template, TEMPLATES};
use crate::u256::{boundary_set, U};
use crate::util::{hex, unhex};
use serde_json::{json, Map, Value};
use storage_layout_extractor as sle;
use sle::layout::StorageLayout;
use sle::tc::abi::AbiType;

#[derive(Clone, Debug)]
pub(crate) enum Tk {
    Sload0,
    Cdl0,
    Mask(U),
    Shr(U),
    Shl(U),
    DivC(u32),
    MulC(u32),
    Or,
    Dup1,
    Swap1,
    Sstore(u64),
}

pub(crate) fn alphabet() -> Vec<Tk> {
    let mut v = vec![Tk::Sload0, Tk::Cdl0, Tk::Or, Tk::Dup1, Tk::Swap1, Tk::Sstore(0), Tk::Sstore(1)];
    for m in [
        U::from_u64(0xff),
        U::from_u64(0xffff),
        U::pow2(160).sub(U::ONE),
        U::from_u64(0xff).shl_n(248),
        U::MAX,
    ] {
        v.push(Tk::Mask(m));
    }
    for s in [0u64, 8, 96, 248, 250, 255, 256, 300] {
        v.push(Tk::Shr(U::from_u64(s)));
        v.push(Tk::Shl(U::from_u64(s)));
    }
    v.push(Tk::Shr(U::pow2(64).sub(U::ONE)));
    v.push(Tk::Shl(U::pow2(64).sub(U::ONE)));
    for s in [8u32, 96, 248, 255] {
        v.push(Tk::DivC(s));
        v.push(Tk::MulC(s));
    }
    v
}

pub(crate) fn arity(t: &Tk) -> (usize, usize) {
    match t {
        Tk::Sload0 | Tk::Cdl0 => (0, 1),
        Tk::Mask(_) | Tk::Shr(_) | Tk::Shl(_) | Tk::DivC(_) | Tk::MulC(_) => (1, 1),
        Tk::Or => (2, 1),
        Tk::Dup1 => (1, 2),
        Tk::Swap1 => (2, 2),
        Tk::Sstore(_) => (1, 0),
    }
}

fn expand(seq: &[Tk]) -> Vec<u8> {
    expand_with(seq, 0)
}

/// The same programs with the loaded slot chosen by the caller (C05 runs them with slot 5).
pub(crate) fn expand_with(seq: &[Tk], load_slot: u64) -> Vec<u8> {
    let mut t: Vec<Tok> = Vec::new();
    for x in seq {
        match x {
            Tk::Sload0 => t.extend([p(load_slot), o(op::SLOAD)]),
            Tk::Cdl0 => t.extend([p(0), o(op::CALLDATALOAD)]),
            Tk::Mask(m) => t.extend([pu(*m), o(op::AND)]),
            Tk::Shr(s) => t.extend([pu(*s), o(op::SHR)]),
            Tk::Shl(s) => t.extend([pu(*s), o(op::SHL)]),
            // value on the stack is the dividend: PUSH divisor, SWAP1, DIV
            Tk::DivC(s) => t.extend([pu(U::pow2(*s)), o(op::SWAP1), o(op::DIV)]),
            Tk::MulC(s) => t.extend([pu(U::pow2(*s)), o(op::MUL)]),
            Tk::Or => t.push(o(op::OR)),
            Tk::Dup1 => t.push(o(op::DUP1)),
            Tk::Swap1 => t.push(o(op::SWAP1)),
            Tk::Sstore(k) => t.extend([p(*k), o(op::SSTORE)]),
        }
    }
    assemble(&t)
}

pub fn width(t: &AbiType) -> Option<usize> {
    match t {
        AbiType::Number { size } | AbiType::UInt { size } | AbiType::Int { size } => *size,
        AbiType::Bytes { length } => length.map(|n| n * 8),
        AbiType::Bits { length } => *length,
        AbiType::Address => Some(160),
        AbiType::Selector => Some(32),
        AbiType::Function => Some(192),
        AbiType::Bool => Some(8),
        _ => None,
    }
}

pub struct Verdict {
    pub key: String,
    pub what: String,
}

pub fn check_layout(l: &StorageLayout) -> Result<usize, Verdict> {
    let mut prev: Option<(ethnum::U256, usize)> = None;
    let mut packed = 0;
    for s in l.slots() {
        let cur = (s.index.0, s.offset);
        if let Some(p) = prev {
            if cur < p {
                return Err(Verdict {
                    key: "order".into(),
                    what: format!("entries are not ordered by (slot, offset): {}", layout_canon(l)),
                });
            }
        }
        prev = Some(cur);
        if s.offset >= 256 {
            return Err(Verdict {
                key: "offset-outside-slot".into(),
                what: format!("an entry starts at bit {} of a 256-bit slot: {}", s.offset, layout_canon(l)),
            });
        }
        if let Some(w) = width(&s.typ) {
            if s.offset + w > 256 {
                return Err(Verdict {
                    key: format!("end-outside-slot:{}", crate::obs::type_canon(&s.typ).trim_end_matches(char::is_numeric)),
                    what: format!("an entry of {w} bits at bit {} ends beyond bit 256: {}", s.offset, layout_canon(l)),
                });
            }
        }
        if s.offset > 0 {
            packed += 1;
        }
    }
    Ok(packed)
}

pub fn check_code(code: &[u8]) -> Result<Option<usize>, Verdict> {
    let o = analyze(code, sle::vm::Config::default().with_permissive_errors(true), &Vec::new(), lazy());
    if o.class != Class::Ok {
        return Ok(None);
    }
    check_layout(o.layout.as_ref().unwrap()).map(Some)
}

#[derive(Clone, Debug)]
enum Chunk {
    Seq(usize),
    Templates(usize, usize),
    /// outer shift of the nested sub-word family
    Nested(usize),
    /// bulk-copy opcode index of the copied-words family
    Copied(usize),
}

const COPY_OPS: [u8; 4] = [0x37, 0x39, 0x3e, 0x3c];

/// N bytes copied into memory by a bulk-copy instruction, then each copied word loaded and stored to its own slot: the
/// words of a copy are at most 32 bytes each, whatever N is.
fn copied_programs(opc: u8) -> Vec<(String, Vec<u8>)> {
    let mut sizes: Vec<u64> = (0..=100).collect();
    sizes.extend([127, 128, 129, 160, 393, 394, 395, 1000]);
    let mut out = Vec::new();
    for n in sizes {
        for dst in [0x80u64, 0, 1] {
            for src in [0u64, 4] {
                let mut t: Vec<Tok> = vec![p(n), p(src), p(dst)];
                if opc == 0x3c {
                    t.push(o(op::CALLER));
                }
                t.push(o(opc));
                let words = ((n + 31) / 32).min(4);
                for i in 0..words {
                    t.extend([p(dst + 32 * i), o(op::MLOAD), p(i), o(op::SSTORE)]);
                }
                out.push((format!("copy of {n} bytes by opcode {opc:#04x} from {src} to {dst:#x}, {words} word(s) stored"), assemble(&t)));
            }
        }
    }
    out
}

fn nested_outer_shifts() -> Vec<u64> {
    let mut v: Vec<u64> = (0..32).map(|i| 8 * i).collect();
    v.extend([1, 4, 100, 121, 250, 255]);
    v
}

/// A field taken out of a field: sload(0) >> a, masked to w1 bits, >> b, masked to w2 bits, optionally stored. Every
/// single shift and mask is below 256; the positions only add up to something beyond the slot together.
fn nested_programs(a: u64) -> Vec<(String, Vec<u8>, bool)> {
    let mut out = Vec::new();
    for w1 in [8u32, 16, 32, 64, 128, 160, 248] {
        let mut inner: Vec<u64> = (0..=w1 as u64 / 8).map(|i| 8 * i).collect();
        inner.extend([1, w1 as u64 - 1, w1 as u64 - 7]);
        inner.sort();
        inner.dedup();
        for b in inner {
            for w2 in [8u32, 16, 32, 128, 160] {
                for store in [false, true] {
                    let mut t: Vec<Tok> = vec![p(0), o(op::SLOAD)];
                    if a != 0 {
                        t.extend([p(a), o(op::SHR)]);
                    }
                    t.extend([pu(U::pow2(w1).sub(U::ONE)), o(op::AND)]);
                    if b != 0 {
                        t.extend([p(b), o(op::SHR)]);
                    }
                    t.extend([pu(U::pow2(w2).sub(U::ONE)), o(op::AND)]);
                    if store {
                        t.extend([p(1), o(op::SSTORE)]);
                    }
                    // the inner region begins at or beyond the last bit of the field it is taken from
                    let beyond = b >= w1 as u64;
                    out.push((format!("((sload(0) >> {a}) & (2^{w1}-1)) >> {b} & (2^{w2}-1){}", if store { " stored to slot 1" } else { "" }), assemble(&t), beyond));
                }
            }
        }
    }
    out
}

const TEMPLATE_SLICES: usize = 8;

fn plan(_tier: Tier) -> Vec<Chunk> {
    let mut v = Vec::new();
    for c in 0..seq_chunks(alphabet().len()) {
        v.push(Chunk::Seq(c));
    }
    for t in 0..TEMPLATES {
        for s in 0..TEMPLATE_SLICES {
            v.push(Chunk::Templates(t, s));
        }
    }
    for i in 0..nested_outer_shifts().len() {
        v.push(Chunk::Nested(i));
    }
    for i in 0..COPY_OPS.len() {
        v.push(Chunk::Copied(i));
    }
    v
}

fn run(ctx: &mut Ctx, family: &str, code: &[u8], desc: &dyn Fn() -> String) {
    run_classified(ctx, family, code, desc, None)
}

/// `class`: a name for the shape of the input that replaces the type name in the key of an end-outside-slot violation.
fn run_classified(ctx: &mut Ctx, family: &str, code: &[u8], desc: &dyn Fn() -> String, class: Option<&str>) {
    ctx.case(|| json!({"bytes": hex(code)}));
    ctx.count("evaluations", 1);
    ctx.count(family, 1);
    match check_code(code) {
        Ok(Some(packed)) => {
            ctx.count("layouts_checked", 1);
            if packed > 0 {
                ctx.count("layouts_with_an_entry_at_nonzero_offset", 1);
                ctx.distinct("nontrivial", crate::util::h64(code));
                ctx.sample(|| json!({"program": desc(), "bytes": hex(code), "verdict": "ordered, every entry inside its slot"}));
            }
        }
        Ok(None) => ctx.count("no_layout", 1),
        Err(v) => {
            let key = match class {
                Some(c) if v.key.starts_with("end-outside-slot") => format!("end-outside-slot:{c}:{}", hex(code)),
                _ => format!("{}:{}", v.key, hex(code)),
            };
            ctx.violation(key, format!("{} [{}]", v.what, desc()), json!({"bytes": hex(code)}))
        }
    }
}

pub struct C12;

impl Check for C12 {
    fn id(&self) -> &'static str {
        "C12"
    }
    fn level(&self) -> &'static str {
        "exploration"
    }
    fn chunks(&self, tier: Tier) -> usize {
        plan(tier).len()
    }
    fn run_chunk(&self, tier: Tier, chunk: usize, ctx: &mut Ctx) {
        match plan(tier)[chunk].clone() {
            Chunk::Seq(c) => {
                let alpha = alphabet();
                let max = if tier.thorough() { 5 } else { 4 };
                run_seq_chunk(alpha.len(), max, c, &mut |ix| {
                    let seq: Vec<Tk> = ix.iter().map(|i| alpha[*i].clone()).collect();
                    let mut depth = 0usize;
                    for t in &seq {
                        let (pops, pushes) = arity(t);
                        if depth < pops {
                            return false;
                        }
                        depth = depth - pops + pushes;
                    }
                    // only programs that write storage produce layouts worth looking at, but reads count too
                    let code = expand(&seq);
                    run(ctx, "mask_shift_sequences", &code, &|| format!("{seq:?}"));
                    true
                });
            }
            Chunk::Copied(i) => {
                if i == 0 {
                    // operators whose constant operand becomes a width: SIGNEXTEND (either operand order), BYTE, and shifts
                    // of call data, each with operands around and far beyond 256, stored to slot 0
                    for c in [0u64, 1, 7, 8, 31, 32, 128, 255, 256, 257, 264, 300, 512, 4096, 65_535] {
                        for (name, body) in [
                            ("signextend(c, x)", vec![p(0), o(op::CALLDATALOAD), p(c), o(0x0b)]),
                            ("signextend(x, c)", vec![p(c), p(0), o(op::CALLDATALOAD), o(0x0b)]),
                            ("byte(c, x)", vec![p(0), o(op::CALLDATALOAD), p(c), o(0x1a)]),
                            ("x >> c", vec![p(0), o(op::CALLDATALOAD), p(c), o(op::SHR)]),
                            ("x << c", vec![p(0), o(op::CALLDATALOAD), p(c), o(op::SHL)]),
                            ("sar(c, x)", vec![p(0), o(op::CALLDATALOAD), p(c), o(0x1d)]),
                        ] {
                            let mut t: Vec<Tok> = body;
                            t.extend([p(0), o(op::SSTORE)]);
                            let code = assemble(&t);
                            run(ctx, "width_operands", &code, &|| format!("{name} with c = {c} stored to slot 0"));
                        }
                    }
                }
                for (desc, code) in copied_programs(COPY_OPS[i]) {
                    run(ctx, "copied_words", &code, &|| desc.clone());
                }
            }
            Chunk::Nested(i) => {
                // a field of any width at any position used as a typed quantity: the type's own width (address 160, bool 8,
                // ...) must not make the entry wider than the field
                let a = nested_outer_shifts()[i];
                for w in [8u32, 16, 32, 56, 128, 160, 192, 248] {
                    for (name, usage) in [
                        ("BALANCE", vec![o(op::BALANCE)]),
                        ("EXTCODESIZE", vec![o(op::EXTCODESIZE)]),
                        ("EXTCODEHASH", vec![o(op::EXTCODEHASH)]),
                        ("ISZERO", vec![o(op::ISZERO)]),
                        ("SLT 0", vec![p(0), o(op::SLT)]),
                        ("call target", vec![p(0), p(0), p(0), p(0), o(0x93), o(op::GAS), o(op::STATICCALL)]),
                    ] {
                        let mut t: Vec<Tok> = vec![p(0), o(op::SLOAD)];
                        if a != 0 {
                            t.extend([p(a), o(op::SHR)]);
                        }
                        t.extend([pu(U::pow2(w).sub(U::ONE)), o(op::AND)]);
                        t.extend(usage);
                        t.extend([p(1), o(op::SSTORE)]);
                        let code = assemble(&t);
                        run(ctx, "typed_fields", &code, &|| format!("{name}((sload(0) >> {a}) & (2^{w}-1)) stored to slot 1"));
                    }
                }
                for (desc, code, beyond) in nested_programs(nested_outer_shifts()[i]) {
                    run_classified(ctx, "nested_sub_words", &code, &|| desc.clone(), if beyond { Some("region-begins-beyond-its-container") } else { None });
                }
            }
            Chunk::Templates(t, slice) => {
                let b = boundary_set(tier.thorough());
                let b2: Vec<U> = if tier.thorough() { b.iter().copied().step_by(3).collect() } else { b.clone() };
                for (i1, c1) in b.iter().enumerate() {
                    if i1 % TEMPLATE_SLICES != slice {
                        continue;
                    }
                    for c2 in &b2 {
                        let code = template(t, *c1, *c2);
                        run(ctx, "templates", &code, &|| format!("template {t}: {} with c1=0x{} c2=0x{}", crate::templates::template_name(t), c1.hex_min(), c2.hex_min()));
                    }
                }
            }
        }
    }
    fn coverage(&self, tier: Tier, total: &Ctx) -> Map<String, Value> {
        let rule = format!(
            "all stack-safe token sequences <= {} over {} mask-and-shift tokens (SLOAD 0, CALLDATALOAD, 5 masks incl. one at bits \
             248..255 and the full word, SHR/SHL by 0, 8, 96, 248, 250, 255, 256, 300, 2^64-1, division / multiplication by 2^8, \
             2^96, 2^248, 2^255, OR, DUP1, SWAP1, SSTORE to slot 0 / 1) and {} pipeline templates x B x B (|B| = {}), and the nested sub-word family (a field of 8..160 bits taken out of a field of 8..248 bits of slot 0, \
             outer shift 0..255, inner shift 0..outer width, read or stored), the typed-field family (a field of 8..248 bits at any of 38 positions used as an address, a call target, a boolean or a signed number), and the copied-words family (CALLDATACOPY / CODECOPY / RETURNDATACOPY / EXTCODECOPY of 0..100, 127..129, 160, 393..395, 1000 bytes, \
             each copied word loaded and stored to its own slot), and SIGNEXTEND / BYTE / SHR / SHL / SAR of call data with constant operands 0..65 535: on every returned \
             layout the (slot, offset) sequence is non-decreasing, every offset is < 256 and offset + width <= 256 for every type \
             with a known width. non-trivial = layout with an entry at a non-zero bit offset; distinct by program",
            if tier.thorough() { 5 } else { 4 },
            alphabet().len(),
            TEMPLATES,
            boundary_set(tier.thorough()).len()
        );
        exploration_coverage(total, total.get("evaluations"), total.distinct_count("nontrivial"), &rule, true)
    }
    fn assumptions(&self, _tier: Tier) -> Vec<String> {
        vec![
            "width table: bytesN 8N, bitsN N, (u)int/number N, address 160, bool 8, selector 32, function 192; other types have no known width".into(),
            "mutated real contracts of the quantifier are a sampling clause and are not run".into(),
        ]
    }
    fn replay(&self, replay: &Value) -> bool {
        let code = unhex(replay["case"]["bytes"].as_str().unwrap());
        let o = analyze(&code, sle::vm::Config::default().with_permissive_errors(true), &Vec::new(), lazy());
        println!("code: {}\nanalysis: {}", hex(&code), o.json());
        match check_code(&code) {
            Ok(_) => false,
            Err(v) => {
                println!("observed: {}: {}", v.key, v.what);
                true
            }
        }
    }
}
