//! Reference EVM: concrete/unknown values, forced-branch path enumeration, predicted error events.
//!
//! It implements the EVM's rules, not the tool's: a jump target is valid iff the *full 256-bit* value is below
//! the code length, the byte there is 0x5b and it is an instruction boundary; JUMPI with a bad target faults only
//! on the taken side; STOP/RETURN/REVERT/SELFDESTRUCT/INVALID/unassigned bytes end the path; stack under- or
//! overflow ends it. Both sides of every JUMPI are enumerated irrespective of the condition ("along the same
//! path" in the property statements means along a forced branch vector).

use crate::c10::ref_kinds;
use crate::u256::{binop, U};
use std::collections::{BTreeMap, BTreeSet};

#[derive(Clone, Copy, Debug, PartialEq, Eq, Hash, PartialOrd, Ord)]
pub enum V {
    C(U),
    /// opaque value; equal tags denote equal values
    Unk(u32),
}

#[derive(Clone, Debug, PartialEq, Eq, Hash, PartialOrd, Ord)]
pub enum ErrKind {
    StackUnderflow,
    StackOverflow,
    /// jump target outside the code (as a full 256-bit value)
    JumpOutOfRange,
    /// jump target inside the code but not a JUMPDEST at an instruction boundary
    JumpNotJumpdest,
    /// jump target is not a constant
    JumpSymbolic,
}

#[derive(Clone, Debug, PartialEq, Eq, Hash, PartialOrd, Ord)]
pub struct ErrEvent {
    pub kind: ErrKind,
    pub offset: u32,
    /// true when it is raised by a JUMPI (which the tool treats specially)
    pub at_jumpi: bool,
}

#[derive(Clone, Debug, PartialEq, Eq)]
pub enum Halt {
    Stop,
    Return,
    Revert,
    SelfDestruct,
    Invalid,
    EndOfCode,
    Error(ErrEvent),
    /// exploration cap hit on this path (loops)
    Capped,
}

#[derive(Clone, Debug)]
pub struct PathResult {
    pub executed: Vec<u32>,
    pub branches: Vec<bool>,
    pub stack: Vec<V>,
    pub memory: BTreeMap<u64, V>,
    pub memory_tainted: bool,
    /// ordered (key, value) writes
    pub writes: Vec<(V, V)>,
    /// keys read with SLOAD, in order
    pub reads: Vec<V>,
    pub halt: Halt,
    pub revisits: bool,
}

#[derive(Clone, Debug, Default)]
pub struct Exploration {
    pub paths: Vec<PathResult>,
    pub capped: bool,
    pub loops: bool,
    pub events: BTreeSet<ErrEvent>,
    pub reachable: BTreeSet<u32>,
}

pub struct Limits {
    pub max_paths: usize,
    pub max_steps_per_path: usize,
    /// per-path visits of one offset before the path is cut
    pub max_visits: usize,
}
impl Default for Limits {
    fn default() -> Self {
        Limits {
            max_paths: 4096,
            max_steps_per_path: 4096,
            max_visits: 1,
        }
    }
}

#[derive(Clone)]
struct St {
    pc: usize,
    stack: Vec<V>,
    memory: BTreeMap<u64, V>,
    tainted: bool,
    storage: BTreeMap<V, V>,
    writes: Vec<(V, V)>,
    reads: Vec<V>,
    executed: Vec<u32>,
    branches: Vec<bool>,
    visits: BTreeMap<u32, usize>,
    revisits: bool,
    next_unk: u32,
}

pub fn valid_jumpdest(code: &[u8], kinds: &[bool], t: U) -> Result<u32, ErrKind> {
    match t.as_u64_checked() {
        Some(x) if (x as usize) < code.len() => {
            let i = x as usize;
            if code[i] == 0x5b && kinds[i] {
                Ok(i as u32)
            } else {
                Err(ErrKind::JumpNotJumpdest)
            }
        }
        _ => Err(ErrKind::JumpOutOfRange),
    }
}

fn env_tag(op: u8) -> u32 {
    1_000 + op as u32
}

/// (pops, pushes) of every opcode handled generically.
pub fn arity(op: u8) -> Option<(usize, usize)> {
    Some(match op {
        0x00 => (0, 0),
        0x01..=0x07 | 0x0a | 0x0b => (2, 1),
        0x08 | 0x09 => (3, 1),
        0x10..=0x14 | 0x16..=0x18 | 0x1a..=0x1d => (2, 1),
        0x15 | 0x19 => (1, 1),
        0x20 => (2, 1),
        0x30 | 0x32..=0x34 | 0x36 | 0x38 | 0x3a | 0x3d | 0x41..=0x48 => (0, 1),
        0x31 | 0x35 | 0x3b | 0x3f | 0x40 => (1, 1),
        0x37 | 0x39 | 0x3e => (3, 0),
        0x3c => (4, 0),
        0x50 => (1, 0),
        0x51 => (1, 1),
        0x52 | 0x53 => (2, 0),
        0x54 => (1, 1),
        0x55 => (2, 0),
        0x56 => (1, 0),
        0x57 => (2, 0),
        0x58..=0x5a => (0, 1),
        0x5b => (0, 0),
        0x5f..=0x7f => (0, 1),
        0x80..=0x8f => ((op - 0x7f) as usize, (op - 0x7f) as usize + 1),
        0x90..=0x9f => ((op - 0x8e) as usize, (op - 0x8e) as usize),
        0xa0..=0xa4 => ((op - 0xa0) as usize + 2, 0),
        0xf0 => (3, 1),
        0xf1 | 0xf2 => (7, 1),
        0xf3 | 0xfd => (2, 0),
        0xf4 | 0xfa => (6, 1),
        0xf5 => (4, 1),
        0xff => (1, 0),
        _ => return None,
    })
}

pub fn opname(op: u8) -> Option<&'static str> {
    Some(match op {
        0x01 => "ADD",
        0x02 => "MUL",
        0x03 => "SUB",
        0x04 => "DIV",
        0x05 => "SDIV",
        0x06 => "MOD",
        0x07 => "SMOD",
        0x0a => "EXP",
        0x0b => "SIGNEXTEND",
        0x10 => "LT",
        0x11 => "GT",
        0x12 => "SLT",
        0x13 => "SGT",
        0x14 => "EQ",
        0x16 => "AND",
        0x17 => "OR",
        0x18 => "XOR",
        0x1a => "BYTE",
        0x1b => "SHL",
        0x1c => "SHR",
        0x1d => "SAR",
        _ => return None,
    })
}

pub fn explore(code: &[u8], zero_storage: bool, lim: &Limits) -> Exploration {
    let kinds = ref_kinds(code);
    let mut out = Exploration::default();
    let init = St {
        pc: 0,
        stack: Vec::new(),
        memory: BTreeMap::new(),
        tainted: false,
        storage: BTreeMap::new(),
        writes: Vec::new(),
        reads: Vec::new(),
        executed: Vec::new(),
        branches: Vec::new(),
        visits: BTreeMap::new(),
        revisits: false,
        next_unk: 10_000,
    };
    let mut work = vec![init];
    while let Some(mut st) = work.pop() {
        if out.paths.len() >= lim.max_paths {
            out.capped = true;
            break;
        }
        let halt = loop {
            if st.pc >= code.len() {
                break Halt::EndOfCode;
            }
            if st.executed.len() >= lim.max_steps_per_path {
                out.capped = true;
                break Halt::Capped;
            }
            let pc = st.pc;
            let op = code[pc];
            {
                let v = st.visits.entry(pc as u32).or_insert(0);
                if *v >= 1 {
                    st.revisits = true;
                    out.loops = true;
                }
                if *v >= lim.max_visits {
                    out.capped = true;
                    break Halt::Capped;
                }
                *v += 1;
            }
            st.executed.push(pc as u32);
            out.reachable.insert(pc as u32);
            let Some((pops, pushes)) = arity(op) else {
                break Halt::Invalid;
            };
            if (0x60..=0x7f).contains(&op) && pc + (op - 0x5f) as usize >= code.len() {
                // a trailing PUSH whose immediate is cut short by the end of the code ends the path (the EVM zero-pads
                // and runs off the end; the tool decodes the compiler's metadata tail as invalid by design). Whether a
                // full stack would overflow first is not observable in either model of this instruction.
                break Halt::EndOfCode;
            }
            if st.stack.len() < pops {
                break Halt::Error(ErrEvent {
                    kind: ErrKind::StackUnderflow,
                    offset: pc as u32,
                    at_jumpi: op == 0x57,
                });
            }
            if st.stack.len() - pops + pushes > 1024 {
                break Halt::Error(ErrEvent {
                    kind: ErrKind::StackOverflow,
                    offset: pc as u32,
                    at_jumpi: false,
                });
            }
            let mut fresh = |st: &mut St| {
                st.next_unk += 1;
                V::Unk(st.next_unk)
            };
            match op {
                0x00 => break Halt::Stop,
                0x5b => {}
                0x5f => st.stack.push(V::C(U::ZERO)),
                0x60..=0x7f => {
                    let n = (op - 0x5f) as usize;
                    if pc + n >= code.len() {
                        // truncated immediate: the EVM zero-pads and then runs off the end of the code
                        break Halt::EndOfCode;
                    }
                    st.stack.push(V::C(U::from_be_slice(&code[pc + 1..pc + 1 + n])));
                    st.pc = pc + n + 1;
                    continue;
                }
                0x80..=0x8f => {
                    let n = (op - 0x7f) as usize;
                    let v = st.stack[st.stack.len() - n];
                    st.stack.push(v);
                }
                0x90..=0x9f => {
                    let n = (op - 0x8f) as usize;
                    let top = st.stack.len() - 1;
                    st.stack.swap(top, top - n);
                }
                0x50 => {
                    st.stack.pop();
                }
                0x58 => st.stack.push(V::C(U::from_u64(pc as u64))),
                0x38 => st.stack.push(V::C(U::from_u64(code.len() as u64))),
                0x15 | 0x19 => {
                    let a = st.stack.pop().unwrap();
                    let r = match a {
                        V::C(x) => V::C(if op == 0x15 { U::evm_iszero(x) } else { x.not() }),
                        _ => fresh(&mut st),
                    };
                    st.stack.push(r);
                }
                0x08 | 0x09 => {
                    let a = st.stack.pop().unwrap();
                    let b = st.stack.pop().unwrap();
                    let n = st.stack.pop().unwrap();
                    let r = match (a, b, n) {
                        (V::C(a), V::C(b), V::C(n)) => V::C(if op == 0x08 {
                            U::evm_addmod(a, b, n)
                        } else {
                            U::evm_mulmod(a, b, n)
                        }),
                        _ => fresh(&mut st),
                    };
                    st.stack.push(r);
                }
                _ if opname(op).is_some() => {
                    let a = st.stack.pop().unwrap();
                    let b = st.stack.pop().unwrap();
                    let r = match (a, b) {
                        (V::C(a), V::C(b)) => V::C(binop(opname(op).unwrap(), a, b).unwrap()),
                        _ => fresh(&mut st),
                    };
                    st.stack.push(r);
                }
                0x51 => {
                    let o = st.stack.pop().unwrap();
                    let r = match o {
                        V::C(o) if !st.tainted && o.as_u64_checked().is_some() => {
                            let o = o.as_u64_checked().unwrap();
                            // exact only for word-aligned, non-overlapping use; callers restrict programs accordingly
                            st.memory.get(&o).copied().unwrap_or(V::C(U::ZERO))
                        }
                        _ => fresh(&mut st),
                    };
                    st.stack.push(r);
                }
                0x52 => {
                    let o = st.stack.pop().unwrap();
                    let v = st.stack.pop().unwrap();
                    match o {
                        V::C(o) if o.as_u64_checked().is_some() => {
                            st.memory.insert(o.as_u64_checked().unwrap(), v);
                        }
                        _ => st.tainted = true,
                    }
                }
                0x53 => {
                    st.stack.pop();
                    st.stack.pop();
                    st.tainted = true;
                }
                0x54 => {
                    let k = st.stack.pop().unwrap();
                    st.reads.push(k);
                    let r = match st.storage.get(&k) {
                        Some(v) => *v,
                        None => {
                            if zero_storage && matches!(k, V::C(_)) {
                                V::C(U::ZERO)
                            } else {
                                let f = fresh(&mut st);
                                st.storage.insert(k, f);
                                f
                            }
                        }
                    };
                    st.stack.push(r);
                }
                0x55 => {
                    let k = st.stack.pop().unwrap();
                    let v = st.stack.pop().unwrap();
                    st.storage.insert(k, v);
                    st.writes.push((k, v));
                }
                0x56 => {
                    let t = st.stack.pop().unwrap();
                    match t {
                        V::C(t) => match valid_jumpdest(code, &kinds, t) {
                            Ok(d) => {
                                st.pc = d as usize;
                                continue;
                            }
                            Err(kind) => {
                                break Halt::Error(ErrEvent {
                                    kind,
                                    offset: pc as u32,
                                    at_jumpi: false,
                                })
                            }
                        },
                        V::Unk(_) => {
                            break Halt::Error(ErrEvent {
                                kind: ErrKind::JumpSymbolic,
                                offset: pc as u32,
                                at_jumpi: false,
                            })
                        }
                    }
                }
                0x57 => {
                    let t = st.stack.pop().unwrap();
                    let _cond = st.stack.pop().unwrap();
                    // taken side
                    let mut taken = st.clone();
                    taken.branches.push(true);
                    let taken_result: Result<u32, ErrKind> = match t {
                        V::C(t) => valid_jumpdest(code, &kinds, t),
                        V::Unk(_) => Err(ErrKind::JumpSymbolic),
                    };
                    match taken_result {
                        Ok(d) => {
                            taken.pc = d as usize;
                            work.push(taken);
                        }
                        Err(kind) => {
                            let ev = ErrEvent {
                                kind,
                                offset: pc as u32,
                                at_jumpi: true,
                            };
                            out.events.insert(ev.clone());
                            out.paths.push(finish(taken, Halt::Error(ev)));
                        }
                    }
                    st.branches.push(false);
                }
                0xf3 => break Halt::Return,
                0xfd => break Halt::Revert,
                0xff => break Halt::SelfDestruct,
                0x37 | 0x39 | 0x3c | 0x3e => {
                    for _ in 0..pops {
                        st.stack.pop();
                    }
                    st.tainted = true;
                }
                0xf1 | 0xf2 | 0xf4 | 0xfa => {
                    for _ in 0..pops {
                        st.stack.pop();
                    }
                    st.tainted = true;
                    let f = fresh(&mut st);
                    st.stack.push(f);
                }
                0x30 | 0x32..=0x34 | 0x36 | 0x3a | 0x41..=0x48 => st.stack.push(V::Unk(env_tag(op))),
                _ => {
                    // generic: pop operands, push fresh unknowns
                    for _ in 0..pops {
                        st.stack.pop();
                    }
                    for _ in 0..pushes {
                        let f = fresh(&mut st);
                        st.stack.push(f);
                    }
                }
            }
            st.pc = pc + 1;
        };
        if let Halt::Error(ev) = &halt {
            out.events.insert(ev.clone());
        }
        out.paths.push(finish(st, halt));
    }
    out
}

fn finish(st: St, halt: Halt) -> PathResult {
    PathResult {
        executed: st.executed,
        branches: st.branches,
        stack: st.stack,
        memory: st.memory,
        memory_tainted: st.tainted,
        writes: st.writes,
        reads: st.reads,
        halt,
        revisits: st.revisits,
    }
}

/// Over-approximated reachability: every JUMP/JUMPI may go to any valid JUMPDEST. Always a superset of what the
/// EVM can reach, for any program.
pub fn reach_over(code: &[u8]) -> BTreeSet<u32> {
    let kinds = ref_kinds(code);
    let dests: Vec<usize> = (0..code.len()).filter(|i| kinds[*i] && code[*i] == 0x5b).collect();
    let mut seen = BTreeSet::new();
    let mut work = vec![0usize];
    while let Some(pc) = work.pop() {
        if pc >= code.len() || !seen.insert(pc as u32) {
            continue;
        }
        let op = code[pc];
        match op {
            0x00 | 0xf3 | 0xfd | 0xff | 0xfe => {}
            0x56 => work.extend(dests.iter().copied()),
            0x57 => {
                work.extend(dests.iter().copied());
                work.push(pc + 1);
            }
            0x60..=0x7f => {
                let n = (op - 0x5f) as usize;
                if pc + n < code.len() {
                    work.push(pc + n + 1);
                }
            }
            _ if arity(op).is_none() => {}
            _ => work.push(pc + 1),
        }
    }
    seen
}
