//! Reference 256-bit arithmetic with EVM semantics.
//!
//! Deliberately naive (4 x u64 limbs, schoolbook multiplication, bit-serial long division) and
//! sharing no code with `ethnum`, which the subject uses. Cross-checked against Python big integers by
//! `mc selfcheck-u256` (run from setup_cmd).

use std::cmp::Ordering;
use std::fmt;

#[derive(Clone, Copy, PartialEq, Eq, Hash, Default)]
pub struct U(pub [u64; 4]); // little-endian limbs

impl fmt::Debug for U {
    fn fmt(&self, f: &mut fmt::Formatter<'_>) -> fmt::Result {
        write!(f, "0x{}", self.hex_min())
    }
}

impl PartialOrd for U {
    fn partial_cmp(&self, o: &Self) -> Option<Ordering> {
        Some(self.cmp(o))
    }
}
impl Ord for U {
    fn cmp(&self, o: &Self) -> Ordering {
        for i in (0..4).rev() {
            match self.0[i].cmp(&o.0[i]) {
                Ordering::Equal => continue,
                x => return x,
            }
        }
        Ordering::Equal
    }
}

impl U {
    pub const ZERO: U = U([0; 4]);
    pub const ONE: U = U([1, 0, 0, 0]);
    pub const MAX: U = U([u64::MAX; 4]);

    pub fn from_u64(x: u64) -> U {
        U([x, 0, 0, 0])
    }
    pub fn from_u128(x: u128) -> U {
        U([x as u64, (x >> 64) as u64, 0, 0])
    }
    pub fn pow2(k: u32) -> U {
        assert!(k < 256);
        let mut l = [0u64; 4];
        l[(k / 64) as usize] = 1u64 << (k % 64);
        U(l)
    }
    pub fn min_signed() -> U {
        U::pow2(255)
    }
    pub fn from_be_bytes(b: [u8; 32]) -> U {
        let mut l = [0u64; 4];
        for i in 0..4 {
            let mut x = 0u64;
            for j in 0..8 {
                x = (x << 8) | b[i * 8 + j] as u64;
            }
            l[3 - i] = x;
        }
        U(l)
    }
    pub fn from_be_slice(s: &[u8]) -> U {
        assert!(s.len() <= 32);
        let mut b = [0u8; 32];
        b[32 - s.len()..].copy_from_slice(s);
        U::from_be_bytes(b)
    }
    pub fn to_be_bytes(self) -> [u8; 32] {
        let mut b = [0u8; 32];
        for i in 0..4 {
            let x = self.0[3 - i];
            for j in 0..8 {
                b[i * 8 + j] = (x >> (56 - 8 * j)) as u8;
            }
        }
        b
    }
    /// Minimal big-endian byte representation (at least one byte).
    pub fn to_be_min(self) -> Vec<u8> {
        let b = self.to_be_bytes();
        let first = b.iter().position(|x| *x != 0).unwrap_or(31);
        b[first..].to_vec()
    }
    pub fn from_hex(s: &str) -> Option<U> {
        let s = s.strip_prefix("0x").unwrap_or(s);
        if s.is_empty() || s.len() > 64 {
            return None;
        }
        let mut r = U::ZERO;
        for c in s.chars() {
            let d = c.to_digit(16)? as u64;
            r = r.shl_small(4);
            r.0[0] |= d;
        }
        Some(r)
    }
    pub fn hex64(self) -> String {
        hex::encode(self.to_be_bytes())
    }
    pub fn hex_min(self) -> String {
        let s = self.hex64();
        let t = s.trim_start_matches('0');
        if t.is_empty() {
            "0".to_string()
        } else {
            t.to_string()
        }
    }
    pub fn is_zero(self) -> bool {
        self.0 == [0; 4]
    }
    pub fn bit(self, i: u32) -> bool {
        (self.0[(i / 64) as usize] >> (i % 64)) & 1 == 1
    }
    pub fn is_neg(self) -> bool {
        self.bit(255)
    }
    pub fn bits(self) -> u32 {
        for i in (0..4).rev() {
            if self.0[i] != 0 {
                return (i as u32) * 64 + (64 - self.0[i].leading_zeros());
            }
        }
        0
    }
    pub fn as_u64_checked(self) -> Option<u64> {
        if self.0[1] == 0 && self.0[2] == 0 && self.0[3] == 0 {
            Some(self.0[0])
        } else {
            None
        }
    }
    /// Truncating conversion (what `as_usize` does on a 64-bit platform).
    pub fn low_u64(self) -> u64 {
        self.0[0]
    }

    pub fn add(self, o: U) -> U {
        let mut r = [0u64; 4];
        let mut c = 0u128;
        for i in 0..4 {
            let s = self.0[i] as u128 + o.0[i] as u128 + c;
            r[i] = s as u64;
            c = s >> 64;
        }
        U(r)
    }
    /// Returns (sum mod 2^256, carry).
    pub fn add_carry(self, o: U) -> (U, bool) {
        let mut r = [0u64; 4];
        let mut c = 0u128;
        for i in 0..4 {
            let s = self.0[i] as u128 + o.0[i] as u128 + c;
            r[i] = s as u64;
            c = s >> 64;
        }
        (U(r), c != 0)
    }
    pub fn not(self) -> U {
        U([!self.0[0], !self.0[1], !self.0[2], !self.0[3]])
    }
    pub fn neg(self) -> U {
        self.not().add(U::ONE)
    }
    pub fn sub(self, o: U) -> U {
        self.add(o.neg())
    }
    pub fn and(self, o: U) -> U {
        U([self.0[0] & o.0[0], self.0[1] & o.0[1], self.0[2] & o.0[2], self.0[3] & o.0[3]])
    }
    pub fn or(self, o: U) -> U {
        U([self.0[0] | o.0[0], self.0[1] | o.0[1], self.0[2] | o.0[2], self.0[3] | o.0[3]])
    }
    pub fn xor(self, o: U) -> U {
        U([self.0[0] ^ o.0[0], self.0[1] ^ o.0[1], self.0[2] ^ o.0[2], self.0[3] ^ o.0[3]])
    }
    /// 512-bit product as 8 limbs.
    pub fn mul_wide(self, o: U) -> [u64; 8] {
        let mut r = [0u64; 8];
        for i in 0..4 {
            let mut carry = 0u128;
            for j in 0..4 {
                let cur = r[i + j] as u128 + (self.0[i] as u128) * (o.0[j] as u128) + carry;
                r[i + j] = cur as u64;
                carry = cur >> 64;
            }
            let mut k = i + 4;
            while carry != 0 && k < 8 {
                let cur = r[k] as u128 + carry;
                r[k] = cur as u64;
                carry = cur >> 64;
                k += 1;
            }
        }
        r
    }
    pub fn mul(self, o: U) -> U {
        let w = self.mul_wide(o);
        U([w[0], w[1], w[2], w[3]])
    }
    fn shl_small(self, k: u32) -> U {
        // k < 64
        if k == 0 {
            return self;
        }
        let mut r = [0u64; 4];
        for i in (0..4).rev() {
            r[i] = self.0[i] << k;
            if i > 0 {
                r[i] |= self.0[i - 1] >> (64 - k);
            }
        }
        U(r)
    }
    /// Shift left by a native amount; >= 256 gives zero.
    pub fn shl_n(self, k: u32) -> U {
        if k >= 256 {
            return U::ZERO;
        }
        let limbs = (k / 64) as usize;
        let mut r = [0u64; 4];
        for i in limbs..4 {
            r[i] = self.0[i - limbs];
        }
        U(r).shl_small(k % 64)
    }
    /// Logical shift right by a native amount; >= 256 gives zero.
    pub fn shr_n(self, k: u32) -> U {
        if k >= 256 {
            return U::ZERO;
        }
        let limbs = (k / 64) as usize;
        let mut r = [0u64; 4];
        for i in 0..(4 - limbs) {
            r[i] = self.0[i + limbs];
        }
        let s = k % 64;
        if s == 0 {
            return U(r);
        }
        let mut q = [0u64; 4];
        for i in 0..4 {
            q[i] = r[i] >> s;
            if i < 3 {
                q[i] |= r[i + 1] << (64 - s);
            }
        }
        U(q)
    }
    /// EVM SHL(shift, value).
    pub fn evm_shl(shift: U, value: U) -> U {
        match shift.as_u64_checked() {
            Some(s) if s < 256 => value.shl_n(s as u32),
            _ => U::ZERO,
        }
    }
    /// EVM SHR(shift, value).
    pub fn evm_shr(shift: U, value: U) -> U {
        match shift.as_u64_checked() {
            Some(s) if s < 256 => value.shr_n(s as u32),
            _ => U::ZERO,
        }
    }
    /// EVM SAR(shift, value).
    pub fn evm_sar(shift: U, value: U) -> U {
        let neg = value.is_neg();
        match shift.as_u64_checked() {
            Some(s) if s < 256 => {
                let s = s as u32;
                let mut r = value.shr_n(s);
                if neg && s > 0 {
                    // fill the top s bits with ones
                    let fill = U::MAX.shl_n(256 - s);
                    r = r.or(fill);
                }
                r
            }
            _ => {
                if neg {
                    U::MAX
                } else {
                    U::ZERO
                }
            }
        }
    }
    /// Bit-serial long division of an n-limb number by a 256-bit divisor; returns (quotient
    /// truncated to 256 bits is not needed), remainder. Divisor must be non-zero.
    fn rem_wide(n: &[u64], d: U) -> U {
        // remainder fits in 257 bits transiently; keep an explicit carry bit
        let mut r = U::ZERO;
        let total_bits = n.len() * 64;
        for i in (0..total_bits).rev() {
            let top = r.bit(255);
            r = r.shl_small(1);
            if (n[i / 64] >> (i % 64)) & 1 == 1 {
                r.0[0] |= 1;
            }
            if top || r >= d {
                r = r.sub(d);
            }
        }
        r
    }
    pub fn divmod(self, d: U) -> (U, U) {
        // d non-zero
        let mut q = U::ZERO;
        let mut r = U::ZERO;
        for i in (0..256u32).rev() {
            let top = r.bit(255);
            r = r.shl_small(1);
            if self.bit(i) {
                r.0[0] |= 1;
            }
            if top || r >= d {
                r = r.sub(d);
                q.0[(i / 64) as usize] |= 1u64 << (i % 64);
            }
        }
        (q, r)
    }
    pub fn evm_div(a: U, b: U) -> U {
        if b.is_zero() {
            U::ZERO
        } else {
            a.divmod(b).0
        }
    }
    pub fn evm_mod(a: U, b: U) -> U {
        if b.is_zero() {
            U::ZERO
        } else {
            a.divmod(b).1
        }
    }
    fn abs(self) -> U {
        if self.is_neg() {
            self.neg()
        } else {
            self
        }
    }
    pub fn evm_sdiv(a: U, b: U) -> U {
        if b.is_zero() {
            return U::ZERO;
        }
        let q = a.abs().divmod(b.abs()).0; // MIN/-1: |MIN| = MIN (2^255), /1 = 2^255, sign positive -> wraps to MIN
        if a.is_neg() != b.is_neg() {
            q.neg()
        } else {
            q
        }
    }
    pub fn evm_smod(a: U, b: U) -> U {
        if b.is_zero() {
            return U::ZERO;
        }
        let r = a.abs().divmod(b.abs()).1;
        if a.is_neg() {
            r.neg()
        } else {
            r
        }
    }
    pub fn evm_addmod(a: U, b: U, n: U) -> U {
        if n.is_zero() {
            return U::ZERO;
        }
        let (s, c) = a.add_carry(b);
        let wide = [s.0[0], s.0[1], s.0[2], s.0[3], c as u64];
        U::rem_wide(&wide, n)
    }
    pub fn evm_mulmod(a: U, b: U, n: U) -> U {
        if n.is_zero() {
            return U::ZERO;
        }
        let w = a.mul_wide(b);
        U::rem_wide(&w, n)
    }
    pub fn evm_exp(base: U, e: U) -> U {
        let mut result = U::ONE;
        let mut b = base;
        for i in 0..256u32 {
            if e.bit(i) {
                result = result.mul(b);
            }
            b = b.mul(b);
        }
        result
    }
    pub fn evm_lt(a: U, b: U) -> U {
        U::from_u64((a < b) as u64)
    }
    pub fn evm_gt(a: U, b: U) -> U {
        U::from_u64((a > b) as u64)
    }
    fn scmp(a: U, b: U) -> Ordering {
        match (a.is_neg(), b.is_neg()) {
            (true, false) => Ordering::Less,
            (false, true) => Ordering::Greater,
            _ => a.cmp(&b),
        }
    }
    pub fn evm_slt(a: U, b: U) -> U {
        U::from_u64((U::scmp(a, b) == Ordering::Less) as u64)
    }
    pub fn evm_sgt(a: U, b: U) -> U {
        U::from_u64((U::scmp(a, b) == Ordering::Greater) as u64)
    }
    pub fn evm_eq(a: U, b: U) -> U {
        U::from_u64((a == b) as u64)
    }
    pub fn evm_iszero(a: U) -> U {
        U::from_u64(a.is_zero() as u64)
    }
    /// EVM BYTE(i, x): i-th byte counting from the most significant.
    pub fn evm_byte(i: U, x: U) -> U {
        match i.as_u64_checked() {
            Some(i) if i < 32 => U::from_u64(x.to_be_bytes()[i as usize] as u64),
            _ => U::ZERO,
        }
    }
    /// EVM SIGNEXTEND(b, x).
    pub fn evm_signextend(b: U, x: U) -> U {
        match b.as_u64_checked() {
            Some(b) if b < 31 => {
                let bit = (b as u32) * 8 + 7;
                let mask = U::MAX.shl_n(bit + 1); // ones above the sign bit
                if x.bit(bit) {
                    x.or(mask)
                } else {
                    x.and(mask.not())
                }
            }
            _ => x,
        }
    }
}

/// All binary EVM operators by name, `f(a, b)` where `a` is the first popped operand.
pub fn binop(name: &str, a: U, b: U) -> Option<U> {
    Some(match name {
        "ADD" => a.add(b),
        "MUL" => a.mul(b),
        "SUB" => a.sub(b),
        "DIV" => U::evm_div(a, b),
        "SDIV" => U::evm_sdiv(a, b),
        "MOD" => U::evm_mod(a, b),
        "SMOD" => U::evm_smod(a, b),
        "EXP" => U::evm_exp(a, b),
        "SIGNEXTEND" => U::evm_signextend(a, b),
        "LT" => U::evm_lt(a, b),
        "GT" => U::evm_gt(a, b),
        "SLT" => U::evm_slt(a, b),
        "SGT" => U::evm_sgt(a, b),
        "EQ" => U::evm_eq(a, b),
        "AND" => a.and(b),
        "OR" => a.or(b),
        "XOR" => a.xor(b),
        "BYTE" => U::evm_byte(a, b),
        "SHL" => U::evm_shl(a, b),
        "SHR" => U::evm_shr(a, b),
        "SAR" => U::evm_sar(a, b),
        _ => return None,
    })
}

pub const BINOPS: [&str; 21] = [
    "ADD", "MUL", "SUB", "DIV", "SDIV", "MOD", "SMOD", "EXP", "SIGNEXTEND", "LT", "GT", "SLT", "SGT", "EQ",
    "AND", "OR", "XOR", "BYTE", "SHL", "SHR", "SAR",
];

/// The boundary constant set (DESIGN.md section 2). `wide` selects k in 7..=255 instead of the short list.
pub fn boundary_set(wide: bool) -> Vec<U> {
    let mut v: Vec<U> = Vec::new();
    for x in [0u64, 1, 2, 3, 31, 32, 33, 255, 256, 257] {
        v.push(U::from_u64(x));
    }
    let ks: Vec<u32> = if wide {
        (7..=255).collect()
    } else {
        vec![7, 8, 15, 16, 31, 32, 56, 63, 64, 127, 128, 159, 160, 191, 192, 248, 255]
    };
    for k in ks {
        let p = U::pow2(k);
        v.push(p);
        v.push(p.sub(U::ONE));
        v.push(p.add(U::ONE));
    }
    v.push(U::MAX);
    v.push(U::MAX.sub(U::ONE));
    v.push(U::min_signed());
    v.push(U::min_signed().add(U::ONE));
    v.push(U::min_signed().sub(U::ONE));
    // solc masks
    v.push(U::pow2(160).sub(U::ONE));
    v.push(U::pow2(160).sub(U::ONE).not());
    v.push(U::from_u64(0xff).shl_n(8));
    v.push(U::from_u64(0xff).shl_n(248));
    // keccak(0), keccak(1) and the EIP-1967 implementation slot
    v.push(crate::util::keccak_words(&[U::ZERO]));
    v.push(crate::util::keccak_words(&[U::ONE]));
    v.push(U::from_hex("360894a13ba1a3210667c828492db98dca3e2076cc3735a920a3ca505d382bbc").unwrap());
    v.sort();
    v.dedup();
    v
}
