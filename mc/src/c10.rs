//! C10 — disassembly is total, lossless and keeps byte offsets.

use crate::corpus;
use crate::infra::*;
use crate::util::{hex, unhex};
use serde_json::{json, Map, Value};
use std::sync::OnceLock;
use storage_layout_extractor as sle;
use sle::disassembly::InstructionStream;
use sle::opcode::control::{Invalid, JumpDest, Nop};

/// Reference disassembly: for every offset, whether it is an instruction boundary or push data.
pub fn ref_kinds(code: &[u8]) -> Vec<bool> {
    // true = boundary
    let mut k = vec![true; code.len()];
    let mut i = 0;
    while i < code.len() {
        let b = code[i];
        if (0x60..=0x7f).contains(&b) {
            let n = (b - 0x5f) as usize;
            for j in 1..=n {
                if i + j < code.len() {
                    k[i + j] = false;
                }
            }
            i += n + 1;
        } else {
            i += 1;
        }
    }
    k
}

/// Opcode bytes assigned in the Shanghai instruction set (what the tool documents as supported).
pub fn assigned(b: u8) -> bool {
    matches!(b,
        0x00..=0x0b | 0x10..=0x1d | 0x20 | 0x30..=0x48 | 0x50..=0x5b | 0x5f..=0x7f | 0x80..=0x9f | 0xa0..=0xa4
        | 0xf0..=0xf5 | 0xfa | 0xfd | 0xfe | 0xff)
}
/// Bytes that were assigned by a later fork (Cancun): the statement does not fix how they behave.
fn dont_care(b: u8) -> bool {
    matches!(b, 0x49 | 0x4a | 0x5c | 0x5d | 0x5e)
}

pub fn check_one(input: &[u8]) -> Result<(), (String, String)> {
    let r = guarded(|| InstructionStream::try_from(input));
    let stream = match r {
        Err(p) => return Err((format!("panic:{}", panic_site(&p)), format!("disassembly panicked: {p}"))),
        Ok(Err(e)) => {
            return Err((
                format!("rejected:{}", crate::obs::error_kind(&e.payload)),
                format!("disassembly rejected the input: {e}"),
            ))
        }
        Ok(Ok(s)) => s,
    };
    let checks = guarded(|| -> Result<(), (String, String)> {
        if stream.len() != input.len() {
            return Err((
                "len".into(),
                format!("instruction stream has {} entries for {} bytes", stream.len(), input.len()),
            ));
        }
        let re = stream.as_bytecode();
        if re != input {
            return Err(("reencode".into(), format!("re-encoding differs: {}", hex(&re))));
        }
        let thread = stream
            .new_thread(0)
            .map_err(|e| ("thread".to_string(), format!("cannot create a thread: {e}")))?;
        let kinds = ref_kinds(input);
        for (i, boundary) in kinds.iter().enumerate() {
            let ins = thread
                .instruction(i as u32)
                .ok_or_else(|| ("missing".to_string(), format!("no instruction at offset {i}")))?;
            let any = ins.as_ref().as_any();
            if !*boundary {
                if any.is::<JumpDest>() {
                    return Err(("pushdata-jumpdest".into(), format!("push data at offset {i} is a JUMPDEST")));
                }
                if !(any.is::<Nop>() || any.is::<Invalid>()) {
                    return Err((
                        "pushdata-instruction".into(),
                        format!("push data at offset {i} decoded as instruction {}", ins.as_text_code()),
                    ));
                }
            } else {
                if any.is::<Nop>() {
                    return Err(("boundary-nop".into(), format!("instruction boundary {i} holds a no-op filler")));
                }
                let byte = ins.as_byte();
                if byte != input[i] {
                    return Err((
                        "boundary-byte".into(),
                        format!("offset {i}: instruction byte {byte:#x} for input byte {:#x}", input[i]),
                    ));
                }
                let b = input[i];
                let is_push = (0x60..=0x7f).contains(&b);
                let truncated = is_push && i + (b - 0x5f) as usize >= input.len();
                if !assigned(b) && !dont_care(b) && !any.is::<Invalid>() {
                    return Err((
                        "unassigned-not-invalid".into(),
                        format!("unassigned byte {b:#x} at {i} decoded as {}", ins.as_text_code()),
                    ));
                }
                if assigned(b) && b != 0xfe && !truncated && any.is::<Invalid>() {
                    return Err((
                        "assigned-invalid".into(),
                        format!("assigned opcode {b:#x} at {i} decoded as INVALID"),
                    ));
                }
                if b == 0x5b && !any.is::<JumpDest>() {
                    return Err(("jumpdest-lost".into(), format!("JUMPDEST at boundary {i} is not a jump destination")));
                }
            }
        }
        Ok(())
    });
    match checks {
        Err(p) => Err((format!("panic:{}", panic_site(&p)), format!("inspecting the stream panicked: {p}"))),
        Ok(r) => r,
    }
}

const REPS: [u8; 16] = [
    0x00, 0x01, 0x5b, 0x5f, 0x60, 0x61, 0x62, 0x7f, 0x80, 0x8f, 0x9f, 0xa4, 0x0c, 0x5e, 0xfe, 0xff,
];

#[derive(Clone, Debug)]
enum Chunk {
    Len1AndTruncations,
    Len2(u8),      // first byte high nibble
    Len3(u8),      // first byte
    Reps(u8, u32), // first symbol index, max length
    PushImmediates,
    CorpusPrefixes { contract: usize, from: usize, to: usize, only_in_push: bool },
    /// behaviour: an unassigned byte, or a PUSH cut short by the end of the code, acts exactly like INVALID (0xfe)
    BehavesAsInvalid,
}

/// Program heads that end where the byte under test is placed: straight line behind a store, and one of two paths.
fn behaviour_heads() -> Vec<Vec<u8>> {
    vec![
        vec![],
        unhex("6001600055"),
        // CALLVALUE PUSH1 8 JUMPI PUSH1 2 PUSH1 1 SSTORE <byte> ... the jump target is appended by the caller
        unhex("34600b57600260015500"),
    ]
}

/// (program ending in the bytes under test, the same program with each of those bytes replaced by 0xfe)
fn behaviour_pairs() -> Vec<(Vec<u8>, Vec<u8>)> {
    let mut tails: Vec<Vec<u8>> = Vec::new();
    for b in 0..=255u8 {
        if crate::ref_evm::arity(b).is_none() && b != 0xfe {
            tails.push(vec![b]);
        }
    }
    for n in 1..=32usize {
        for have in [0usize, 1, n / 2, n - 1] {
            if have < n {
                let mut t = vec![0x5f + n as u8];
                t.extend(std::iter::repeat(0xaa).take(have));
                tails.push(t);
            }
        }
    }
    tails.sort();
    tails.dedup();
    let mut out = Vec::new();
    // push immediates are never jump destinations, also when the push is cut short: a JUMP / JUMPI to every byte of
    // the partial data (JUMPDEST bytes among them) must behave as the same jump into INVALID bytes
    for n in [2usize, 3, 17, 32] {
        for data in [vec![0x5bu8], vec![0x5b, 0x5b], vec![0xaa, 0x5b], vec![0x5b, 0x60, 0x01]] {
            if data.len() >= n {
                continue;
            }
            for conditional in [false, true] {
                for k in 0..=data.len() {
                    // head: [PUSH1 1] PUSH1 target JUMP/JUMPI STOP; tail: PUSHn data
                    let head_len = if conditional { 6 } else { 4 };
                    let target = (head_len + k) as u8;
                    let mut head = Vec::new();
                    if conditional {
                        head.extend([0x60, 0x01]);
                    }
                    head.extend([0x60, target, if conditional { 0x57 } else { 0x56 }, 0x00]);
                    let mut code = head.clone();
                    code.push(0x5f + n as u8);
                    code.extend(&data);
                    let mut reference = head;
                    reference.extend(std::iter::repeat(0xfe).take(1 + data.len()));
                    out.push((code, reference));
                }
            }
        }
    }
    for head in behaviour_heads() {
        for t in &tails {
            let build = |tail: &[u8]| {
                let mut c = head.clone();
                if head.len() > 6 {
                    // two paths: the fall-through path ends in STOP (already in the head), the taken path in the tail
                    c.push(0x5b);
                    c.extend([0x60, 0x03, 0x60, 0x04, 0x55]);
                }
                c.extend(tail);
                c
            };
            let invalid: Vec<u8> = vec![0xfe; t.len()];
            out.push((build(t), build(&invalid)));
        }
    }
    out
}

pub struct C10;

fn corpus() -> &'static Vec<corpus::Contract> {
    static C: OnceLock<Vec<corpus::Contract>> = OnceLock::new();
    C.get_or_init(corpus::load)
}

fn plan(tier: Tier) -> Vec<Chunk> {
    let mut v = vec![Chunk::Len1AndTruncations, Chunk::PushImmediates, Chunk::BehavesAsInvalid];
    for h in 0..16 {
        v.push(Chunk::Len2(h));
    }
    let maxlen = if tier.thorough() { 6 } else { 5 };
    for s in 0..16 {
        v.push(Chunk::Reps(s, maxlen));
    }
    if tier.thorough() {
        for b in 0..=255u8 {
            v.push(Chunk::Len3(b));
        }
    }
    for (ci, c) in corpus().iter().enumerate() {
        let step = 2048;
        let mut from = 1;
        while from <= c.code.len() {
            let to = (from + step).min(c.code.len() + 1);
            v.push(Chunk::CorpusPrefixes {
                contract: ci,
                from,
                to,
                only_in_push: !tier.thorough(),
            });
            from = to;
        }
    }
    v
}

fn run_input(ctx: &mut Ctx, family: &str, input: &[u8]) {
    ctx.case(|| json!({"bytes": hex(input)}));
    ctx.count("evaluations", 1);
    ctx.count(family, 1);
    let kinds = ref_kinds(input);
    let has_push = input.iter().zip(&kinds).any(|(b, k)| *k && (0x60..=0x7f).contains(b));
    let truncated = {
        let mut t = false;
        let mut i = 0;
        while i < input.len() {
            let b = input[i];
            if (0x60..=0x7f).contains(&b) {
                let n = (b - 0x5f) as usize;
                if i + n >= input.len() {
                    t = true;
                }
                i += n + 1;
            } else {
                i += 1;
            }
        }
        t
    };
    if has_push {
        ctx.count("nontrivial_with_push", 1);
        if input.len() <= 8 {
            ctx.distinct("nontrivial", crate::util::h64(input));
        } else {
            ctx.distinct("nontrivial", crate::util::h64(&(input.len(), &input[input.len() - 8..])));
        }
    }
    if truncated {
        ctx.count("truncated_push_inputs", 1);
    }
    if let Err((key, what)) = check_one(input) {
        ctx.violation(key, format!("{what} [input {}]", hex(&input[..input.len().min(40)])), json!({"bytes": hex(input)}));
    } else if has_push {
        ctx.sample(|| json!({"bytes": hex(&input[..input.len().min(48)]), "len": input.len(), "verdict": "ok"}));
    }
}

impl Check for C10 {
    fn id(&self) -> &'static str {
        "C10"
    }
    fn level(&self) -> &'static str {
        "exploration"
    }
    fn chunks(&self, tier: Tier) -> usize {
        plan(tier).len()
    }
    fn run_chunk(&self, tier: Tier, chunk: usize, ctx: &mut Ctx) {
        match plan(tier)[chunk].clone() {
            Chunk::Len1AndTruncations => {
                for b in 0..=255u8 {
                    run_input(ctx, "len1", &[b]);
                }
                for b in 0..=255u8 {
                    for pat in [0x5bu8, 0x60, 0x00] {
                        for t in 0..=33usize {
                            let mut v = vec![b];
                            v.extend(std::iter::repeat(pat).take(t));
                            run_input(ctx, "opcode_x_truncation", &v);
                        }
                    }
                }
            }
            Chunk::BehavesAsInvalid => {
                use crate::obs::{analyze, lazy};
                for (code, reference) in behaviour_pairs() {
                    for permissive in [false, true] {
                        ctx.case(|| json!({"bytes": hex(&code), "behaviour_reference": hex(&reference), "permissive": permissive}));
                        ctx.count("evaluations", 1);
                        ctx.count("behaves_as_invalid", 1);
                        let cfg = || sle::vm::Config::default().with_permissive_errors(permissive);
                        let a = analyze(&code, cfg(), &Vec::new(), lazy());
                        let b = analyze(&reference, cfg(), &Vec::new(), lazy());
                        ctx.distinct("nontrivial", crate::util::h64(&(&code, permissive)));
                        if a.canon() != b.canon() {
                            ctx.violation(
                                "behaviour-differs-from-INVALID",
                                format!(
                                    "{} (permissive = {permissive}) gives {} but with 0xfe in place of the last {} byte(s) the result is {}",
                                    hex(&code),
                                    a.canon(),
                                    code.iter().zip(&reference).filter(|(x, y)| x != y).count(),
                                    b.canon()
                                ),
                                json!({"bytes": hex(&code), "behaviour_reference": hex(&reference), "permissive": permissive}),
                            );
                        }
                    }
                }
            }
            Chunk::PushImmediates => {
                // every PUSHn with immediates made of JUMPDEST / PUSH bytes, followed by a real JUMPDEST
                for n in 1..=32usize {
                    for pat in [0x5bu8, 0x60, 0x7f, 0x61] {
                        for tail in [vec![], vec![0x5b], vec![0x5b, 0x00], vec![0x60]] {
                            for lead in [vec![], vec![0x5b], vec![0x60]] {
                                let mut v = lead.clone();
                                v.push(0x5f + n as u8);
                                v.extend(std::iter::repeat(pat).take(n));
                                v.extend(&tail);
                                run_input(ctx, "pushn_immediates", &v);
                            }
                        }
                    }
                }
            }
            Chunk::Len2(h) => {
                for lo in 0..16u8 {
                    let a = (h << 4) | lo;
                    for b in 0..=255u8 {
                        run_input(ctx, "len2", &[a, b]);
                    }
                }
            }
            Chunk::Len3(a) => {
                for b in 0..=255u8 {
                    for c in 0..=255u8 {
                        run_input(ctx, "len3", &[a, b, c]);
                    }
                }
            }
            Chunk::Reps(first, maxlen) => {
                let mut cur = vec![REPS[first as usize]];
                fn rec(ctx: &mut Ctx, cur: &mut Vec<u8>, maxlen: u32) {
                    run_input(ctx, "class_rep_strings", cur);
                    if cur.len() as u32 >= maxlen {
                        return;
                    }
                    for r in REPS {
                        cur.push(r);
                        rec(ctx, cur, maxlen);
                        cur.pop();
                    }
                }
                rec(ctx, &mut cur, maxlen);
            }
            Chunk::CorpusPrefixes {
                contract,
                from,
                to,
                only_in_push,
            } => {
                let c = &corpus()[contract];
                let kinds = ref_kinds(&c.code);
                for cut in from..to {
                    // prefix of length `cut`; it cuts inside a PUSH iff offset `cut` is push data, or the
                    // last kept byte is a PUSH opcode
                    let inside = (cut < c.code.len() && !kinds[cut])
                        || (kinds[cut - 1] && (0x60..=0x7f).contains(&c.code[cut - 1]));
                    if only_in_push && !inside {
                        continue;
                    }
                    run_input(ctx, "corpus_prefixes", &c.code[..cut]);
                }
            }
        }
    }
    fn coverage(&self, tier: Tier, total: &Ctx) -> Map<String, Value> {
        let rule = format!(
            "complete enumeration of: all byte strings of length 1, 2{}; every opcode byte x every truncation 0..=33 of \
             an immediate made of 0x5b/0x60/0x00; every PUSHn x immediates of JUMPDEST/PUSH bytes x 4 tails x 3 leads; \
             all strings of length <= {} over 16 opcode-class representatives; {} of all {} shipped contracts. Each \
             input is checked against a reference disassembler (Ok, one entry per byte, byte-exact re-encoding, \
             push data never a JUMPDEST/instruction, boundary bytes preserved, unassigned bytes INVALID). Behaviour: every \
             unassigned byte and every PUSHn cut short (0, 1, n/2, n-1 immediate bytes present) placed at the end of 3 program heads \
             (empty, behind a store, on one of two paths) is analysed in both error modes and must give exactly the result of the \
             same program with 0xfe in place of those bytes; likewise a JUMP / JUMPI to every byte of a truncated push (partial data containing JUMPDEST bytes). \
             non-trivial = input contains a PUSH at an instruction boundary; distinct by content (<=8 bytes) or by \
             (length, last 8 bytes)",
            if tier.thorough() { ", 3" } else { "" },
            if tier.thorough() { 6 } else { 5 },
            if tier.thorough() { "every prefix" } else { "every prefix that cuts inside a PUSH" },
            corpus().len()
        );
        exploration_coverage(total, total.get("evaluations"), total.distinct_count("nontrivial"), &rule, true)
    }
    fn assumptions(&self, _tier: Tier) -> Vec<String> {
        vec![
            "reference disassembler ref_kinds (20 lines) and the Shanghai opcode table are trusted".into(),
            "bytes assigned only by later forks (0x49, 0x4a, 0x5c-0x5e) are don't-cares".into(),
            "inputs longer than 6 bytes are covered only through the shipped-contract prefixes; random 24 KiB strings of the quantifier are a sampling clause and are not run".into(),
        ]
    }
    fn replay(&self, replay: &Value) -> bool {
        let bytes = unhex(replay["case"]["bytes"].as_str().unwrap_or(""));
        println!("input: {}", hex(&bytes));
        if let Some(r) = replay["case"]["behaviour_reference"].as_str() {
            let reference = unhex(r);
            let permissive = replay["case"]["permissive"].as_bool().unwrap_or(false);
            let cfg = || sle::vm::Config::default().with_permissive_errors(permissive);
            let a = crate::obs::analyze(&bytes, cfg(), &Vec::new(), crate::obs::lazy());
            let b = crate::obs::analyze(&reference, cfg(), &Vec::new(), crate::obs::lazy());
            println!("with the bytes under test: {}\nwith 0xfe in their place:  {}", a.canon(), b.canon());
            return a.canon() != b.canon();
        }
        match check_one(&bytes) {
            Ok(()) => {
                println!("observed: conforms to the reference disassembly");
                false
            }
            Err((k, w)) => {
                println!("observed: {k}: {w}");
                true
            }
        }
    }
}
