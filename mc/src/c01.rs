//! C01 — the analysis is total: a layout or a structured error, never a panic / abort / hang.

use crate::asm::{arrkey, assemble, mapkey_from_stack, o, op, p, pu, Tok};
use crate::corpus;
use crate::infra::*;
use crate::obs::{analyze, analyze_staged, lazy, vm_config_from_json, vm_config_json, Class, CountingWatchdog};
use crate::prog::{run_seq_chunk, seq_chunks};
use crate::templates::{template, template_name, TEMPLATES};
use crate::u256::{boundary_set, U};
use crate::util::{hex, keccak_words, unhex};
use serde_json::{json, Map, Value};
use std::sync::OnceLock;
use storage_layout_extractor as sle;

fn hostile_consts() -> Vec<U> {
    vec![
        U::ZERO,
        U::ONE,
        U::from_u64(0x20),
        U::from_u64(0xff),
        U::from_u64(0x100),
        U::pow2(56),
        U::pow2(64).sub(U::ONE),
        U::pow2(64),
        U::pow2(255),
        U::MAX,
        keccak_words(&[U::ZERO]),
        U::pow2(160).sub(U::ONE),
    ]
}

fn hostile_ops() -> Vec<u8> {
    vec![
        op::MLOAD,
        op::MSTORE,
        op::MSTORE8,
        op::SHA3,
        op::CALLDATALOAD,
        op::CALLDATACOPY,
        op::CODECOPY,
        op::RETURNDATACOPY,
        op::RETURN,
        op::REVERT,
        op::LOG1,
        op::SHL,
        op::SHR,
        op::SAR,
        op::EXP,
        op::BYTE,
        op::SIGNEXTEND,
        op::AND,
        op::OR,
        op::MUL,
        op::DIV,
        op::ADD,
        op::SUB,
        op::NOT,
        op::SLOAD,
        op::SSTORE,
        op::JUMP,
        op::JUMPI,
        op::JUMPDEST,
        op::DUP1,
        op::DUP2,
        op::SWAP1,
        op::POP,
        op::CALLVALUE,
    ]
}

#[derive(Clone, Debug)]
enum Tk {
    P(U),
    Op(u8),
    MapKey,
    ArrKey,
}

fn alphabet() -> Vec<Tk> {
    let mut v: Vec<Tk> = hostile_consts().into_iter().map(Tk::P).collect();
    v.extend(hostile_ops().into_iter().map(Tk::Op));
    v.push(Tk::MapKey);
    v.push(Tk::ArrKey);
    v
}

fn tk_arity(t: &Tk) -> (usize, usize) {
    match t {
        Tk::P(_) => (0, 1),
        Tk::Op(b) => crate::ref_evm::arity(*b).unwrap_or((0, 0)),
        Tk::MapKey => (1, 1),
        Tk::ArrKey => (0, 1),
    }
}

fn expand(seq: &[Tk]) -> Vec<u8> {
    let mut t: Vec<Tok> = Vec::new();
    for x in seq {
        match x {
            Tk::P(c) => t.push(pu(*c)),
            Tk::Op(b) => t.push(o(*b)),
            Tk::MapKey => t.extend(mapkey_from_stack(U::from_u64(3))),
            Tk::ArrKey => t.extend(arrkey(U::from_u64(3))),
        }
    }
    assemble(&t)
}

pub fn configs() -> Vec<(&'static str, sle::vm::Config)> {
    vec![
        ("default", sle::vm::Config::default()),
        (
            "all-limits-1",
            sle::vm::Config::default()
                .with_max_iterations_per_opcode(1)
                .with_max_forks_per_fork_target(1)
                .with_gas_limit(300)
                .with_value_size_limit(1)
                .with_memory_max_bytes(1),
        ),
        ("permissive", sle::vm::Config::default().with_permissive_errors(true)),
    ]
}

pub struct Verdict {
    pub key: String,
    pub what: String,
}

const BUDGET: u64 = 2_000_000;

/// One (input, configuration): one-call entry point and staged API, both guarded.
pub fn check_one(code: &[u8], cfg: &sle::vm::Config) -> Result<Class, Verdict> {
    // a counting watchdog with a huge budget doubles as a hang detector for loops that poll
    let w = CountingWatchdog::new(1000, Some(BUDGET));
    let a = analyze(code, cfg.clone(), &Vec::new(), w);
    if a.class == Class::Panic {
        let p = a.panic.clone().unwrap_or_default();
        return Err(Verdict {
            key: format!("panic:{}", panic_site(&p)),
            what: format!("analyze() panicked: {p}"),
        });
    }
    if a.class == Class::ErrStopped {
        return Err(Verdict {
            key: "hang:polls-exhausted".into(),
            what: format!("analyze() was still running after {BUDGET} polls at interval 1000"),
        });
    }
    let s = analyze_staged(code, cfg.clone(), &Vec::new(), lazy());
    if s.class == Class::Panic {
        let p = s.panic.clone().unwrap_or_default();
        return Err(Verdict {
            key: format!("panic-staged:{}", panic_site(&p)),
            what: format!("the staged API panicked: {p}"),
        });
    }
    if s.canon() != a.canon() {
        return Err(Verdict {
            key: "staged-differs".into(),
            what: format!("analyze() gives {} but the staged calls give {}", a.canon(), s.canon()),
        });
    }
    Ok(a.class)
}

#[derive(Clone, Debug)]
enum Chunk {
    Bytes12(u8),
    Bytes3(u8),
    Seq(usize),
    Operands(usize, usize),
    Templates(usize),
    Corpus(usize, usize, usize),
    /// every single-byte substitution (12 replacement bytes) at offsets from..to of a shipped contract
    CorpusMutations(usize, usize, usize),
    /// one loop-free program under every vector of configuration values
    ConfigGrid(usize),
    /// every program of the type-checker-configuration family under one configuration variant
    TcConfig(usize),
    /// programs whose slot types refer to themselves or to each other (slice of 8)
    RecursiveTypes(usize),
}

/// Programs for the type-checker configurations: the grid programs and one idiom program per representative kind.
fn tc_programs() -> Vec<Vec<u8>> {
    let mut v = grid_programs().clone();
    for kind in crate::c04::representative_kinds() {
        v.push(crate::c04::build(&crate::c04::Case {
            vars: vec![(crate::idioms::Var { slot: U::from_u64(5), kind }, crate::idioms::Mode::Both)],
            spelling: 1,
        }));
    }
    v
}

/// Loop-free programs that use every configurable mechanism (copies, hashing, memory, forks, storage idioms).
fn grid_programs() -> &'static Vec<Vec<u8>> {
    static C: OnceLock<Vec<Vec<u8>>> = OnceLock::new();
    C.get_or_init(|| {
        let mut v: Vec<Vec<u8>> = Vec::new();
        for t in 0..TEMPLATES {
            v.push(template(t, U::from_u64(0x20), U::from_u64(0x40)));
        }
        // three conditional jumps to one target, a two-variable idiom program, a copy followed by a load and a store
        v.push(crate::util::unhex("34600d5734600d5734600d57005b00"));
        v.push(crate::c04::build(&crate::c04::Case {
            vars: vec![
                (crate::idioms::Var { slot: U::from_u64(5), kind: crate::idioms::Kind::Mapping(vec![crate::idioms::KeyKind::Address], true) }, crate::idioms::Mode::Both),
                (crate::idioms::Var { slot: U::from_u64(6), kind: crate::idioms::Kind::Packed(vec![(0, 8), (8, 24)]) }, crate::idioms::Mode::Both),
            ],
            spelling: 0,
        }));
        v.push(crate::util::unhex("6040600060003760005160005500"));
        v.retain(|c| {
            let x = crate::ref_evm::explore(c, false, &crate::ref_evm::Limits::default());
            !x.loops && !x.capped
        });
        v
    })
}

/// Every configuration whose five limits are each 1, 7, the default or usize::MAX, in both error modes.
fn config_grid() -> &'static Vec<(&'static str, sle::vm::Config)> {
    static G: OnceLock<Vec<(&'static str, sle::vm::Config)>> = OnceLock::new();
    G.get_or_init(build_config_grid)
}

fn build_config_grid() -> Vec<(&'static str, sle::vm::Config)> {
    let d = sle::vm::Config::default();
    let vals = |default: usize| [1usize, 7, default, usize::MAX];
    let mut out = Vec::new();
    for gas in vals(d.gas_limit) {
        for it in vals(d.maximum_iterations_per_opcode) {
            for forks in vals(d.maximum_forks_per_fork_target) {
                for size in vals(d.value_size_limit) {
                    for mem in vals(d.single_memory_operation_size_limit) {
                        for permissive in [false, true] {
                            out.push((
                                &*Box::leak(
                                    format!("gas={gas} iterations={it} forks={forks} value_size={size} memory_bytes={mem} permissive={permissive}").into_boxed_str(),
                                ),
                                sle::vm::Config::default()
                                    .with_gas_limit(gas)
                                    .with_max_iterations_per_opcode(it)
                                    .with_max_forks_per_fork_target(forks)
                                    .with_value_size_limit(size)
                                    .with_memory_max_bytes(mem)
                                    .with_permissive_errors(permissive),
                            ));
                        }
                    }
                }
            }
        }
    }
    out
}

fn small_corpus() -> &'static Vec<corpus::Contract> {
    static C: OnceLock<Vec<corpus::Contract>> = OnceLock::new();
    C.get_or_init(|| corpus::load().into_iter().filter(|c| c.code.len() <= 400).take(4).collect())
}

/// Multi-operand opcodes whose operands are offsets / sizes / addresses.
fn operand_ops() -> Vec<(u8, usize)> {
    vec![
        (op::MLOAD, 1),
        (op::MSTORE, 2),
        (op::MSTORE8, 2),
        (op::SHA3, 2),
        (op::CALLDATALOAD, 1),
        (op::CALLDATACOPY, 3),
        (op::CODECOPY, 3),
        (op::EXTCODECOPY, 4),
        (op::RETURNDATACOPY, 3),
        (op::RETURN, 2),
        (op::REVERT, 2),
        (op::LOG0, 2),
        (op::LOG1, 3),
        (0xa4, 6),
        (op::CREATE, 3),
        (op::CREATE2, 4),
        (op::CALL, 7),
        (0xf2, 7),
        (op::DELEGATECALL, 6),
        (op::STATICCALL, 6),
        (op::JUMP, 1),
        (op::JUMPI, 2),
        (op::SLOAD, 1),
        (op::SSTORE, 2),
        (op::EXTCODESIZE, 1),
        (op::BALANCE, 1),
        (op::BLOCKHASH, 1),
        (op::SELFDESTRUCT, 1),
    ]
}

fn operand_consts() -> Vec<U> {
    vec![U::ZERO, U::from_u64(0x20), U::from_u64(0x21), U::pow2(64).sub(U::ONE), U::pow2(64), U::MAX]
}

fn plan(tier: Tier) -> Vec<Chunk> {
    let mut v = Vec::new();
    for h in 0..16 {
        v.push(Chunk::Bytes12(h));
    }
    if tier.thorough() {
        for b in 0..=255u8 {
            v.push(Chunk::Bytes3(b));
        }
    }
    for c in 0..seq_chunks(alphabet().len()) {
        v.push(Chunk::Seq(c));
    }
    for i in 0..operand_ops().len() {
        for first in 0..operand_consts().len() {
            v.push(Chunk::Operands(i, first));
        }
    }
    for t in 0..TEMPLATES {
        v.push(Chunk::Templates(t));
    }
    for (ci, c) in small_corpus().iter().enumerate() {
        let step = 16;
        let mut from = 1;
        while from <= c.code.len() {
            let to = (from + step).min(c.code.len() + 1);
            v.push(Chunk::Corpus(ci, from, to));
            from = to;
        }
    }
    for i in 0..grid_programs().len() {
        v.push(Chunk::ConfigGrid(i));
    }
    for i in 0..crate::obs::TC_VARIANTS {
        v.push(Chunk::TcConfig(i));
    }
    for i in 0..8 {
        v.push(Chunk::RecursiveTypes(i));
    }
    let mutated = if tier.thorough() { small_corpus().len() } else { 1 };
    for (ci, c) in small_corpus().iter().enumerate().take(mutated) {
        let step = 8;
        let mut from = 0;
        while from < c.code.len() {
            let to = (from + step).min(c.code.len());
            v.push(Chunk::CorpusMutations(ci, from, to));
            from = to;
        }
    }
    v
}

fn run(ctx: &mut Ctx, family: &str, code: &[u8], cfgs: &[(&'static str, sle::vm::Config)]) {
    for (name, cfg) in cfgs {
        ctx.case(|| json!({"bytes": hex(code), "config": vm_config_json(cfg)}));
        ctx.count("evaluations", 1);
        ctx.count(family, 1);
        let t0 = std::time::Instant::now();
        let r = check_one(code, cfg);
        ctx.count(&format!("us_{family}"), t0.elapsed().as_micros() as u64);
        match r {
            Ok(class) => {
                ctx.distinct("outcome_classes", crate::util::h64(&format!("{class:?}")));
                if class == Class::Ok || class == Class::ErrUnification {
                    // reached the type checker
                    ctx.count("reached_type_checker", 1);
                    ctx.distinct("nontrivial", crate::util::h64(&(code, *name)));
                    if class == Class::Ok && code.len() > 8 {
                        ctx.sample(|| json!({"bytes": hex(&code[..code.len().min(40)]), "config": name, "verdict": "returned a layout"}));
                    }
                }
            }
            Err(v) => ctx.violation(
                v.key,
                format!("{} [{} under {name}]", v.what, hex(&code[..code.len().min(60)])),
                json!({"bytes": hex(code), "config": vm_config_json(cfg)}),
            ),
        }
    }
}

pub struct C01;

impl Check for C01 {
    fn id(&self) -> &'static str {
        "C01"
    }
    fn level(&self) -> &'static str {
        "exploration"
    }
    fn chunks(&self, tier: Tier) -> usize {
        plan(tier).len()
    }
    fn stall_secs(&self, _tier: Tier) -> u64 {
        120
    }
    fn run_chunk(&self, tier: Tier, chunk: usize, ctx: &mut Ctx) {
        let all = configs();
        let default_only = &all[..1];
        match plan(tier)[chunk].clone() {
            Chunk::Bytes12(h) => {
                if h == 0 {
                    for b in 0..=255u8 {
                        run(ctx, "bytes_len1", &[b], &all);
                    }
                }
                for lo in 0..16u8 {
                    let a = (h << 4) | lo;
                    for b in 0..=255u8 {
                        run(ctx, "bytes_len2", &[a, b], &all);
                    }
                }
            }
            Chunk::Bytes3(a) => {
                for b in 0..=255u8 {
                    for c in 0..=255u8 {
                        run(ctx, "bytes_len3", &[a, b, c], default_only);
                    }
                }
            }
            Chunk::Seq(c) => {
                let alpha = alphabet();
                let max = if tier.thorough() { 5 } else { 4 };
                run_seq_chunk(alpha.len(), max, c, &mut |ix| {
                    let seq: Vec<Tk> = ix.iter().map(|i| alpha[*i].clone()).collect();
                    // stack-aware pruning: the first underflowing token ends the thread, so only the
                    // sequence that ends with it is kept (one representative underflow)
                    let mut depth = 0usize;
                    let mut underflow_at = None;
                    for (i, t) in seq.iter().enumerate() {
                        let (pops, pushes) = tk_arity(t);
                        if depth < pops {
                            underflow_at = Some(i);
                            break;
                        }
                        depth = depth - pops + pushes;
                    }
                    if let Some(i) = underflow_at {
                        if i + 1 < seq.len() {
                            return false;
                        }
                    }
                    let code = expand(&seq);
                    let cfgs = if ix.len() <= 3 { &all[..] } else { default_only };
                    run(ctx, "hostile_sequences", &code, cfgs);
                    underflow_at.is_none()
                });
            }
            Chunk::Operands(i, first) => {
                let (opc, k) = operand_ops()[i];
                let consts = operand_consts();
                let n = consts.len();
                let total = n.pow(k as u32);
                // operand assignments; for arity > 4 only assignments with at most 3 non-zero operands
                for a in 0..total {
                    if a % n != first {
                        continue;
                    }
                    let mut ops: Vec<U> = Vec::new();
                    let mut x = a;
                    let mut nonzero = 0;
                    for _ in 0..k {
                        let c = consts[x % n];
                        if !c.is_zero() {
                            nonzero += 1;
                        }
                        ops.push(c);
                        x /= n;
                    }
                    if k > 4 && nonzero > 3 {
                        continue;
                    }
                    for tail in 0..3 {
                        let mut t: Vec<Tok> = ops.iter().rev().map(|c| pu(*c)).collect();
                        t.push(o(opc));
                        match tail {
                            0 => {}
                            1 => t.extend([p(0), o(op::MLOAD), p(1), o(op::SSTORE)]),
                            _ => t.extend([p(0x20), p(0), o(op::SHA3), o(op::SLOAD), p(2), o(op::SSTORE)]),
                        }
                        let code = assemble(&t);
                        run(ctx, "operand_assignments", &code, if tail == 0 { &all[..] } else { default_only });
                    }
                }
            }
            Chunk::Templates(t) => {
                let b = boundary_set(tier.thorough());
                let b2: Vec<U> = if tier.thorough() { b.iter().copied().step_by(4).collect() } else { b.clone() };
                for c1 in &b {
                    for c2 in &b2 {
                        let code = template(t, *c1, *c2);
                        run(ctx, "templates", &code, default_only);
                    }
                }
                let _ = template_name(t);
            }
            Chunk::RecursiveTypes(slice) => {
                for (i, code) in crate::c02::recursive_type_programs().into_iter().enumerate() {
                    if i % 8 == slice {
                        run(ctx, "recursive_slot_types", &code, &all);
                    }
                }
            }
            Chunk::TcConfig(variant) => {
                for code in tc_programs() {
                    for permissive in [false, true] {
                        let vm = || sle::vm::Config::default().with_permissive_errors(permissive);
                        let (name, _) = crate::obs::tc_variant(variant);
                        ctx.case(|| json!({"bytes": hex(&code), "config": vm_config_json(&vm()), "tc_variant": variant}));
                        ctx.count("evaluations", 1);
                        ctx.count("tc_config", 1);
                        let a = crate::obs::analyze_tc(&code, vm(), crate::obs::tc_variant(variant).1, &Vec::new(), CountingWatchdog::new(1000, Some(BUDGET)));
                        let s = crate::obs::analyze_staged_tc(&code, vm(), crate::obs::tc_variant(variant).1, &Vec::new(), lazy());
                        let verdict = if a.class == Class::Panic || s.class == Class::Panic {
                            let p = a.panic.clone().or(s.panic.clone()).unwrap_or_default();
                            Some((format!("panic:{}", panic_site(&p)), format!("panicked: {p}")))
                        } else if a.class == Class::ErrStopped {
                            Some(("hang:polls-exhausted".to_string(), format!("analyze() was still running after {BUDGET} polls at interval 1000")))
                        } else if a.canon() != s.canon() {
                            Some(("staged-differs".to_string(), format!("analyze() gives {} but the staged calls give {}", a.canon(), s.canon())))
                        } else {
                            None
                        };
                        match verdict {
                            None => {
                                ctx.distinct("nontrivial", crate::util::h64(&(&code, variant, permissive)));
                                ctx.distinct("outcome_classes", crate::util::h64(&format!("{:?}", a.class)));
                            }
                            Some((k, w)) => ctx.violation(
                                k,
                                format!("{w} [{} with type-checker configuration `{name}`, permissive = {permissive}]", hex(&code[..code.len().min(60)])),
                                json!({"bytes": hex(&code), "config": vm_config_json(&vm()), "tc_variant": variant}),
                            ),
                        }
                    }
                }
            }
            Chunk::ConfigGrid(i) => {
                run(ctx, "config_grid", &grid_programs()[i], config_grid());
            }
            Chunk::Corpus(ci, from, to) => {
                let c = &small_corpus()[ci];
                for cut in from..to {
                    run(ctx, "corpus_prefixes", &c.code[..cut], default_only);
                }
            }
            Chunk::CorpusMutations(ci, from, to) => {
                let c = &small_corpus()[ci];
                const REPLACEMENTS: [u8; 12] = [0x00, 0x5b, 0x56, 0x57, 0xff, 0x60, 0x7f, 0x1b, 0x1c, 0x20, 0x54, 0x55];
                for at in from..to {
                    for r in REPLACEMENTS {
                        if c.code[at] == r {
                            continue;
                        }
                        let mut m = c.code.clone();
                        m[at] = r;
                        run(ctx, "corpus_single_byte_mutations", &m, default_only);
                    }
                }
            }
        }
    }
    fn coverage(&self, tier: Tier, total: &Ctx) -> Map<String, Value> {
        let rule = format!(
            "complete enumeration of: all byte strings of length 1 and 2{} x 3 configurations (default, all limits at 1 / gas 300, \
             permissive); all stack-pruned token sequences <= {} over {} hostile tokens (12 boundary constants such as 2^64-1, 2^64, \
             2^255, 2^256-1, keccak(0); 34 opcodes that turn operands into offsets, shifts, sizes, targets or slots; mapping-key and \
             array-key idioms), all 3 configurations up to length 3; every assignment of 6 boundary constants to the operands of \
             28 multi-operand opcodes (<= 3 non-zero operands above arity 4) x 3 consumer tails; {} pipeline templates (mask/shift/ \
             divide/multiply packing, mapping offset, array index, hashed memory, exp/sar/signextend/byte, return/log/revert) x B x B \
             with |B| = {}; every prefix of the {} smallest shipped contracts and every single-byte substitution (12 replacement bytes incl. STOP, JUMPDEST, \
             JUMP, JUMPI, PUSH1, PUSH32, SHL, SHR, SHA3, SLOAD, SSTORE, SELFDESTRUCT) at every offset of the smallest one (thorough: of all of them); up to 19 loop-free programs (the templates with benign constants, a fork chain, a two-variable idiom program, a copy / load / store) under EVERY configuration whose five limits are each 1, 7, the default or usize::MAX, in both error modes (2 048 configurations); those programs and one idiom program per representative kind under 31 type-checker configurations built from the public passes and rules (default, no passes, no rules, neither, each single pass left out, each single rule left out, passes reversed, the extra public rule added); 280 programs whose slot types refer to themselves or to each other (a slot's value used as index / key into the same or another container). Each input goes through analyze() and through the \
             staged API (results must agree) under a panic guard; aborts and hangs are attributed by the process supervisor. \
             non-trivial = (input, configuration) that got past execution into the type checker; distinct by content",
            if tier.thorough() { " and 3 (length 3: default configuration)" } else { "" },
            if tier.thorough() { 5 } else { 4 },
            alphabet().len(),
            TEMPLATES,
            boundary_set(tier.thorough()).len(),
            small_corpus().len()
        );
        exploration_coverage(total, total.get("evaluations"), total.distinct_count("nontrivial"), &rule, true)
    }
    fn assumptions(&self, _tier: Tier) -> Vec<String> {
        vec![
            "harness profile: opt-level 3 with overflow checks (as in both of the repository's profiles) and debug assertions on".into(),
            "all runs use the canonical iteration order; a panic that needs a particular hash order is C02's catch (its observation class includes Panic)".into(),
            "inputs longer than ~40 bytes only through the shipped-contract prefixes: native stack depth and other scale effects on large contracts are not reached; random and mutated inputs of the quantifier are sampling clauses and are not run".into(),
        ]
    }
    fn replay(&self, replay: &Value) -> bool {
        let c = &replay["case"];
        let code = unhex(c["bytes"].as_str().unwrap());
        let cfg = c.get("config").map(vm_config_from_json).unwrap_or_default();
        println!("code: {} config: {}", hex(&code), vm_config_json(&cfg));
        if let Some(variant) = c["tc_variant"].as_u64() {
            let (name, tc) = crate::obs::tc_variant(variant as usize);
            println!("type-checker configuration: {name}");
            let a = crate::obs::analyze_tc(&code, cfg.clone(), tc, &Vec::new(), CountingWatchdog::new(1000, Some(BUDGET)));
            let s = crate::obs::analyze_staged_tc(&code, cfg.clone(), crate::obs::tc_variant(variant as usize).1, &Vec::new(), lazy());
            println!("analyze(): {}\nstaged:    {}", a.json(), s.json());
            return a.class == Class::Panic || s.class == Class::Panic || a.class == Class::ErrStopped || a.canon() != s.canon();
        }
        match check_one(&code, &cfg) {
            Ok(class) => {
                println!("observed: returns normally ({class:?})");
                false
            }
            Err(v) => {
                println!("observed: {}: {}", v.key, v.what);
                true
            }
        }
    }
}
