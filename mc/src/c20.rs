//! C20 — layout entries survive a JSON round trip with exact 256-bit slot indices.

use crate::infra::*;
use crate::u256::{boundary_set, U};
use crate::util::{from_ethnum, to_ethnum};
use serde_json::{json, Map, Value};
use storage_layout_extractor as sle;
use sle::layout::StorageSlot;
use sle::tc::abi::{AbiType, StructElement};
use sle::utility::U256Wrapper;

fn sizes() -> [Option<usize>; 4] {
    [None, Some(1), Some(8), Some(256)]
}

pub fn leaves() -> Vec<AbiType> {
    let mut v = vec![AbiType::Any];
    for s in sizes() {
        v.push(AbiType::Number { size: s });
        v.push(AbiType::UInt { size: s });
        v.push(AbiType::Int { size: s });
        v.push(AbiType::Bytes { length: s });
        v.push(AbiType::Bits { length: s });
    }
    v.extend([
        AbiType::Address,
        AbiType::Selector,
        AbiType::Function,
        AbiType::Bool,
        AbiType::DynBytes,
        AbiType::InfiniteType,
        AbiType::conflict(),
        AbiType::ConflictedType {
            conflicts: vec!["Word { width: Some(8), usage: Bool }".into(), "Bytes".into()],
            reasons: vec!["Incompatible \"inferences\"\n".into()],
        },
        AbiType::Struct { elements: vec![] },
    ]);
    v
}

fn array_sizes() -> Vec<U> {
    vec![U::ZERO, U::ONE, U::pow2(64), U::MAX]
}

fn arr(size: U, t: &AbiType) -> AbiType {
    AbiType::Array {
        size: U256Wrapper(to_ethnum(size)),
        tp: Box::new(t.clone()),
    }
}

/// All types of exactly depth 2 (constructors over leaves).
pub fn depth2() -> Vec<AbiType> {
    let l = leaves();
    let mut v = Vec::new();
    for t in &l {
        for s in array_sizes() {
            v.push(arr(s, t));
        }
        v.push(AbiType::DynArray { tp: Box::new(t.clone()) });
        v.push(AbiType::Struct {
            elements: vec![StructElement::new(0, t.clone())],
        });
        v.push(AbiType::Struct {
            elements: vec![StructElement::new(8, t.clone())],
        });
        // a struct may span several words: element offsets are relative to the struct, not to a slot
        for off in [255usize, 256, 368, 1024, 1 << 20, usize::MAX >> 1] {
            v.push(AbiType::Struct {
                elements: vec![StructElement::new(0, AbiType::Bool), StructElement::new(off, t.clone())],
            });
        }
    }
    for a in &l {
        for b in &l {
            v.push(AbiType::Mapping {
                key_type: Box::new(a.clone()),
                value_type: Box::new(b.clone()),
            });
            v.push(AbiType::Struct {
                elements: vec![StructElement::new(0, a.clone()), StructElement::new(128, b.clone())],
            });
        }
    }
    v
}

/// Checks one entry; Err((key, what)).
pub fn check_entry(e: &StorageSlot, expect_index: U) -> Result<(), (String, String)> {
    let r = guarded(|| -> Result<(), (String, String)> {
        let s = serde_json::to_string(e).map_err(|x| ("serialize-error".to_string(), x.to_string()))?;
        let back: StorageSlot =
            serde_json::from_str(&s).map_err(|x| ("deserialize-error".to_string(), format!("{x} on {s}")))?;
        if back != *e {
            return Err(("roundtrip-unequal".into(), format!("{s} reads back as {back:?}")));
        }
        let again = serde_json::to_string(&back).map_err(|x| ("serialize-error".to_string(), x.to_string()))?;
        if again != s {
            return Err(("roundtrip-not-identical".into(), format!("{s} re-serialises as {again}")));
        }
        // every other way serde_json reads and writes a document: bytes, a stream, a parsed value, pretty printing
        let routes: Vec<(&str, Result<StorageSlot, String>)> = vec![
            ("from_slice", serde_json::from_slice(s.as_bytes()).map_err(|x| x.to_string())),
            ("from_reader", serde_json::from_reader(std::io::Cursor::new(s.as_bytes().to_vec())).map_err(|x| x.to_string())),
            (
                "from_value",
                serde_json::to_value(e).map_err(|x| x.to_string()).and_then(|v| serde_json::from_value(v).map_err(|x| x.to_string())),
            ),
            (
                "from_str(to_string_pretty)",
                serde_json::to_string_pretty(e).map_err(|x| x.to_string()).and_then(|p| serde_json::from_str(&p).map_err(|x| x.to_string())),
            ),
            (
                "from_reader(to_vec)",
                serde_json::to_vec(e).map_err(|x| x.to_string()).and_then(|b| serde_json::from_reader(&b[..]).map_err(|x| x.to_string())),
            ),
        ];
        for (route, r) in routes {
            match r {
                Err(x) => return Err((format!("deserialize-error:{route}"), format!("{x} on {s}"))),
                Ok(b) if b != *e || from_ethnum(b.index.0) != expect_index => {
                    return Err((format!("roundtrip-unequal:{route}"), format!("{s} reads back as {b:?}")))
                }
                Ok(_) => {}
            }
        }
        // independent reading of the document
        let doc: Value = serde_json::from_str(&s).map_err(|x| ("not-json".to_string(), x.to_string()))?;
        let Some(ix) = doc.get("index").and_then(Value::as_str) else {
            return Err(("index-format".into(), format!("no string field `index` in {s}")));
        };
        let well_formed = ix.len() == 66
            && ix.starts_with("0x")
            && ix[2..].chars().all(|c| c.is_ascii_digit() || ('a'..='f').contains(&c));
        if !well_formed {
            return Err(("index-format".into(), format!("index is written as {ix:?}")));
        }
        if U::from_hex(ix) != Some(expect_index) {
            return Err(("index-value".into(), format!("index {} written as {ix}", expect_index.hex64())));
        }
        if from_ethnum(back.index.0) != expect_index {
            return Err(("index-value".into(), format!("index {} read back as {}", expect_index.hex64(), back.index.0)));
        }
        if doc.get("offset").and_then(Value::as_u64) != Some(e.offset as u64) {
            return Err(("offset".into(), format!("offset {} written as {:?}", e.offset, doc.get("offset"))));
        }
        if doc.get("type").is_none() {
            return Err(("type-field".into(), format!("no field `type` in {s}")));
        }
        Ok(())
    });
    match r {
        Ok(x) => x,
        Err(p) => Err((format!("panic:{}", panic_site(&p)), format!("panicked: {p}"))),
    }
}

fn variant(t: &AbiType) -> String {
    crate::obs::type_canon(t).split(|c: char| !c.is_alphabetic()).next().unwrap_or("").to_string()
}

fn run(ctx: &mut Ctx, family: &str, index: U, offset: usize, t: &AbiType) {
    ctx.case(|| json!({"index": index.hex64(), "offset": offset, "type": serde_json::to_value(t).unwrap_or(Value::Null)}));
    ctx.count("evaluations", 1);
    ctx.count(family, 1);
    let e = StorageSlot::new(U256Wrapper(to_ethnum(index)), offset, t.clone());
    ctx.distinct(
        "nontrivial",
        crate::util::h64(&(index, offset, serde_json::to_string(t).unwrap_or_default())),
    );
    match check_entry(&e, index) {
        Ok(()) => ctx.sample(|| serde_json::to_value(&e).unwrap_or(Value::Null)),
        Err((k, w)) => ctx.violation(
            format!("{k}:{}", variant(t)),
            w,
            json!({"index": index.hex64(), "offset": offset, "type": serde_json::to_value(t).unwrap_or(Value::Null)}),
        ),
    }
}

#[derive(Clone, Debug)]
enum Chunk {
    Shallow,            // leaves and depth 2 with 4 indices/offsets
    Depth3(usize, bool), // slice, full
    Chains,
    IndexOffset(usize), // representative type index
}

const SLICES: usize = 32;

fn plan(tier: Tier) -> Vec<Chunk> {
    let mut v = vec![Chunk::Shallow, Chunk::Chains];
    for s in 0..SLICES {
        v.push(Chunk::Depth3(s, tier.thorough()));
    }
    for r in 0..8 {
        v.push(Chunk::IndexOffset(r));
    }
    v
}

fn reps() -> Vec<AbiType> {
    let l = leaves();
    vec![
        AbiType::Any,
        AbiType::UInt { size: Some(256) },
        AbiType::Address,
        AbiType::DynBytes,
        arr(U::MAX, &AbiType::Bool),
        AbiType::Mapping {
            key_type: Box::new(AbiType::Address),
            value_type: Box::new(AbiType::DynArray {
                tp: Box::new(AbiType::Bytes { length: Some(32) }),
            }),
        },
        AbiType::Struct {
            elements: vec![StructElement::new(0, AbiType::Bool), StructElement::new(8, l[l.len() - 2].clone())],
        },
        l[l.len() - 2].clone(),
    ]
}

pub struct C20;

impl Check for C20 {
    fn id(&self) -> &'static str {
        "C20"
    }
    fn level(&self) -> &'static str {
        "exploration"
    }
    fn chunks(&self, tier: Tier) -> usize {
        plan(tier).len()
    }
    fn run_chunk(&self, tier: Tier, chunk: usize, ctx: &mut Ctx) {
        let four = [(U::ZERO, 0usize), (U::ONE, 8), (U::pow2(64), 248), (U::MAX, 255)];
        match plan(tier)[chunk].clone() {
            Chunk::Shallow => {
                for t in leaves().iter().chain(depth2().iter()) {
                    for (i, o) in four {
                        run(ctx, "depth<=2", i, o, t);
                    }
                }
            }
            Chunk::Depth3(slice, full) => {
                let l = leaves();
                let d2 = depth2();
                for (k, t) in d2.iter().enumerate() {
                    if k % SLICES != slice {
                        continue;
                    }
                    let (i, o) = four[k % 4];
                    for s in array_sizes() {
                        run(ctx, "depth3", i, o, &arr(s, t));
                    }
                    run(ctx, "depth3", i, o, &AbiType::DynArray { tp: Box::new(t.clone()) });
                    run(
                        ctx,
                        "depth3",
                        i,
                        o,
                        &AbiType::Struct {
                            elements: vec![StructElement::new(16, t.clone())],
                        },
                    );
                    let others: Vec<&AbiType> = if full { l.iter().chain(d2.iter()).collect() } else { l.iter().collect() };
                    for u in others {
                        run(
                            ctx,
                            "depth3",
                            i,
                            o,
                            &AbiType::Mapping {
                                key_type: Box::new(t.clone()),
                                value_type: Box::new(u.clone()),
                            },
                        );
                        run(
                            ctx,
                            "depth3",
                            i,
                            o,
                            &AbiType::Mapping {
                                key_type: Box::new(u.clone()),
                                value_type: Box::new(t.clone()),
                            },
                        );
                        run(
                            ctx,
                            "depth3",
                            i,
                            o,
                            &AbiType::Struct {
                                elements: vec![StructElement::new(0, u.clone()), StructElement::new(64, t.clone())],
                            },
                        );
                    }
                }
            }
            Chunk::Chains => {
                // unary-constructor chains to depth 6 over every leaf
                for leaf in leaves() {
                    for ctor in 0..4 {
                        let mut t = leaf.clone();
                        for depth in 2..=6 {
                            t = match ctor {
                                0 => AbiType::DynArray { tp: Box::new(t) },
                                1 => arr(U::pow2(200), &t),
                                2 => AbiType::Struct {
                                    elements: vec![StructElement::new(depth, t)],
                                },
                                _ => AbiType::Mapping {
                                    key_type: Box::new(AbiType::Address),
                                    value_type: Box::new(t),
                                },
                            };
                            run(ctx, "chains", U::from_u64(depth as u64), depth, &t);
                        }
                    }
                }
            }
            Chunk::IndexOffset(r) => {
                let t = &reps()[r];
                for i in boundary_set(tier.thorough()) {
                    for o in 0..=255usize {
                        run(ctx, "index_x_offset", i, o, t);
                    }
                }
            }
        }
    }
    fn coverage(&self, tier: Tier, total: &Ctx) -> Map<String, Value> {
        let rule = format!(
            "complete enumeration of AbiType trees: 30 leaves (every leaf variant, sizes None/1/8/256, conflicts with and without \
             payload, empty struct), all depth-2 types (arrays of length 0/1/2^64/2^256-1, dynamic arrays, 1- and 2-element structs (element offsets 0, 8, 128 and, for multi-word structs, 255, 256, 368, 1024, 2^20, 2^63-1), \
             mappings over all leaf pairs), depth-3 types with {} second component, unary chains to depth 6; plus index in the \
             boundary set ({} values) x every offset 0..=255 x 8 representative types. Oracle: from_str(to_string(e)) == e (and the same through from_slice, from_reader, from_value(to_value(e)) and pretty printing), byte-identical \
             re-serialisation, index is 0x + 64 lowercase hex digits and an independent hex parser reads the exact value. \
             Every case is non-trivial; distinct by (index, offset, type JSON)",
            if tier.thorough() { "any depth<=2" } else { "a leaf as the" },
            boundary_set(tier.thorough()).len()
        );
        exploration_coverage(total, total.get("evaluations"), total.distinct_count("nontrivial"), &rule, true)
    }
    fn assumptions(&self, _tier: Tier) -> Vec<String> {
        vec![
            "serde_json is trusted as the JSON reader/writer; the index format is checked by an independent hex parser".into(),
            "trees deeper than 3 only as unary chains (depth 6); random 256-bit indices of the quantifier are replaced by the boundary set".into(),
        ]
    }
    fn replay(&self, replay: &Value) -> bool {
        let c = &replay["case"];
        let index = U::from_hex(c["index"].as_str().unwrap()).unwrap();
        let offset = c["offset"].as_u64().unwrap() as usize;
        let t: AbiType = serde_json::from_value(c["type"].clone()).expect("type");
        let e = StorageSlot::new(U256Wrapper(to_ethnum(index)), offset, t);
        println!("entry: {e:?}");
        println!("json:  {:?}", serde_json::to_string(&e));
        match check_entry(&e, index) {
            Ok(()) => {
                println!("observed: round trip is exact");
                false
            }
            Err((k, w)) => {
                println!("observed: {k}: {w}");
                true
            }
        }
    }
}
