//! C14 — unification ends with one equality-free type per variable and honours equalities (explicit enumeration
//! of judgement sets over a 3-variable universe, each evaluated on the real unifier under the canonical order and
//! every single deviation, in lock-step with a reference congruence closure).

use crate::infra::*;
use crate::sched::{extend, plan_from_json, plan_json};
use crate::unif::*;
use serde_json::{json, Map, Value};
use std::collections::BTreeMap;
use storage_layout_extractor as sle;
use sle::tc::expression::TypeExpression as TE;

pub const N: usize = 3;

/// The per-variable judgement alphabet.
pub fn alphabet() -> Vec<(usize, J)> {
    let mut out = Vec::new();
    for v in 0..N {
        let a = (v + 1) % N;
        let b = (v + 2) % N;
        // a variable may also be declared equal to itself
        let mut js = vec![J::Equal(a), J::Equal(b), J::Equal(v), J::Any, J::Bytes];
        for (w, u) in [
            (None, 0u8),
            (None, 1),
            (None, 2),
            (None, 3),
            (Some(8), 4),
            (Some(160), 5),
            (Some(32), 6),
            (Some(64), 2),
            (Some(256), 0),
        ] {
            js.push(J::Word(w, u));
        }
        js.extend([J::Mapping(v, v), J::Mapping(a, b), J::Mapping(b, a)]);
        js.extend([J::DynArray(v), J::DynArray(a)]);
        js.extend([J::FixedArray(a, 1), J::FixedArray(a, 2)]);
        js.extend([
            J::Packed(vec![(a, 0, 8)]),
            J::Packed(vec![(a, 0, 160), (b, 160, 96)]),
            J::Packed(vec![(a, 8, 16), (b, 0, 16)]),
            J::Packed(vec![(a, 0, 256)]),
            J::Packed(vec![]),
            J::Packed(vec![(a, 300, 8)]),
            J::Packed(vec![(v, 0, 8)]),
        ]);
        for j in js {
            out.push((v, j));
        }
    }
    out
}

/// Reference congruence closure over the original variables (maximal: ignores conflicts).
pub fn ref_closure(set: &[(usize, J)]) -> Vec<usize> {
    let mut parent: Vec<usize> = (0..N).collect();
    fn find(p: &mut Vec<usize>, x: usize) -> usize {
        if p[x] != x {
            let r = find(p, p[x]);
            p[x] = r;
        }
        p[x]
    }
    let union = |p: &mut Vec<usize>, a: usize, b: usize| -> bool {
        let (ra, rb) = (find(p, a), find(p, b));
        if ra != rb {
            p[ra.max(rb)] = ra.min(rb);
            true
        } else {
            false
        }
    };
    for (v, j) in set {
        if let J::Equal(o) = j {
            union(&mut parent, *v, *o);
        }
    }
    loop {
        let mut changed = false;
        for (v1, j1) in set {
            for (v2, j2) in set {
                if find(&mut parent, *v1) != find(&mut parent, *v2) {
                    continue;
                }
                match (j1, j2) {
                    (J::Mapping(k1, x1), J::Mapping(k2, x2)) => {
                        changed |= union(&mut parent, *k1, *k2);
                        changed |= union(&mut parent, *x1, *x2);
                    }
                    (J::DynArray(e1), J::DynArray(e2)) => changed |= union(&mut parent, *e1, *e2),
                    (J::FixedArray(e1, n1), J::FixedArray(e2, n2)) if n1 == n2 => changed |= union(&mut parent, *e1, *e2),
                    _ => {}
                }
            }
        }
        if !changed {
            break;
        }
    }
    (0..N).map(|i| find(&mut parent, i)).collect()
}

/// Closure that is REQUIRED when no class is conflicted: equalities plus component unification.
pub struct Verdict {
    pub key: String,
    pub what: String,
}

fn has_packed(set: &[(usize, J)]) -> bool {
    set.iter().any(|(_, j)| matches!(j, J::Packed(_)))
}

fn kind_of(set: &[(usize, J)]) -> String {
    let mut kinds: Vec<&str> = set
        .iter()
        .map(|(_, j)| match j {
            J::Any => "Any",
            J::Bytes => "Bytes",
            J::Equal(_) => "Equal",
            J::Word(..) => "Word",
            J::Mapping(..) => "Mapping",
            J::DynArray(_) => "DynArray",
            J::FixedArray(..) => "FixedArray",
            J::Packed(_) => "Packed",
        })
        .collect();
    kinds.sort();
    kinds.dedup();
    kinds.join("+")
}

pub fn check_outcome(set: &[(usize, J)], out: &Outcome) -> Result<bool, Verdict> {
    let r = match out {
        Outcome::Done(r) => r,
        Outcome::Panic(p) => {
            return Err(Verdict {
                key: format!("panic:{}", panic_site(p)),
                what: format!("unification panicked: {p}"),
            })
        }
        Outcome::Skipped => return Ok(false),
        Outcome::OverBudget => {
            return Err(Verdict {
                key: format!("non-terminating:{}", kind_of(set)),
                what: format!("unification was still running after {BUDGET} polls"),
            })
        }
        Outcome::Error(e) => {
            return Err(Verdict {
                key: "error".into(),
                what: format!("unification failed: {e}"),
            })
        }
    };
    // one equality-free expression per variable (including the variables allocated while merging)
    for (i, (v, data)) in &r.all {
        if data.len() > 1 {
            return Err(Verdict {
                key: format!("several-expressions:{}", kind_of(set)),
                what: format!("variable {v} (index {i}) is left with {} expressions: {data:?}", data.len()),
            });
        }
        if data.iter().any(|e| matches!(e, TE::Equal { .. })) {
            return Err(Verdict {
                key: "unresolved-equality".into(),
                what: format!("variable {v} resolves to an equality: {data:?}"),
            });
        }
    }
    // declared equalities
    for (v, j) in set {
        if let J::Equal(o) = j {
            if !r.same(&r.vars[*v], &r.vars[*o]) {
                return Err(Verdict {
                    key: "equality-not-honoured".into(),
                    what: format!("v{v} and v{o} were declared equal but are in different classes"),
                });
            }
            if r.types[*v] != r.types[*o] {
                return Err(Verdict {
                    key: "equal-variables-different-types".into(),
                    what: format!("v{v} resolves to {:?} but v{o} to {:?}", r.types[*v], r.types[*o]),
                });
            }
        }
    }
    let any_conflict = r.all.values().any(|(_, d)| d.iter().any(|e| matches!(e, TE::Conflict { .. })));
    if !has_packed(set) {
        let closure = ref_closure(set);
        // soundness: nothing is equated that the evidence does not equate
        for i in 0..N {
            for j in 0..N {
                if r.same(&r.vars[i], &r.vars[j]) && closure[i] != closure[j] {
                    return Err(Verdict {
                        key: "spurious-equality".into(),
                        what: format!("v{i} and v{j} end in one class although no chain of equalities or constructor components joins them"),
                    });
                }
            }
        }
        // completeness of component unification, required when no evidence is contradictory
        if !any_conflict {
            for i in 0..N {
                for j in 0..N {
                    if closure[i] == closure[j] && !r.same(&r.vars[i], &r.vars[j]) {
                        return Err(Verdict {
                            key: format!("components-not-unified:{}", kind_of(set)),
                            what: format!("v{i} and v{j} must be unified (equalities / components of constructed types that meet) but are in different classes"),
                        });
                    }
                }
            }
        }
    }
    Ok(any_conflict)
}

#[derive(Clone, Debug)]
enum Chunk {
    Sets(usize), // first element index
}

fn max_size(tier: Tier) -> usize {
    if tier.thorough() {
        4
    } else {
        3
    }
}

fn for_each_set(first: usize, max: usize, f: &mut dyn FnMut(&[(usize, J)])) {
    let alpha = alphabet();
    fn rec(alpha: &[(usize, J)], start: usize, cur: &mut Vec<(usize, J)>, max: usize, f: &mut dyn FnMut(&[(usize, J)])) {
        f(cur);
        if cur.len() >= max {
            return;
        }
        for i in start..alpha.len() {
            cur.push(alpha[i].clone());
            rec(alpha, i + 1, cur, max, f);
            cur.pop();
        }
    }
    let mut cur = vec![alpha[first].clone()];
    rec(&alpha, first + 1, &mut cur, max, f);
}

/// Rings of classes whose evidence moves on by one class per round: member i is `packed([member i+1 at bits 0..160])`,
/// the last member points back at the first, and one member is also an address. A ring of n classes has period n, several
/// rings together have the least common multiple of their lengths, which may exceed the number of variables.
/// Returns (number of variables, judgement set, description).
pub fn ring_sets() -> Vec<(usize, Vec<(usize, J)>, String)> {
    let mut shapes: Vec<Vec<usize>> = Vec::new();
    for a in 6..=16usize {
        shapes.push(vec![a]);
    }
    for a in 1..=5usize {
        shapes.push(vec![a]);
        for b in a..=5 {
            shapes.push(vec![a, b]);
            for c in b..=5 {
                if a + b + c <= 12 {
                    shapes.push(vec![a, b, c]);
                }
            }
        }
    }
    let mut out = Vec::new();
    for shape in shapes {
        for extra in [0usize, 1, 4, 30] {
            for seed_kind in 0..2 {
                let n: usize = shape.iter().sum::<usize>() + extra;
                let mut set: Vec<(usize, J)> = Vec::new();
                let mut base = 0;
                for len in &shape {
                    for i in 0..*len {
                        set.push((base + i, J::Packed(vec![(base + (i + 1) % len, 0, 160)])));
                    }
                    // the evidence that travels round the ring
                    set.push((base, if seed_kind == 0 { J::Word(Some(160), 5) } else { J::Word(Some(160), 0) }));
                    base += len;
                }
                for e in 0..extra {
                    // unrelated variables, some of them with evidence of their own
                    if e % 2 == 0 {
                        set.push((base + e, J::Word(Some(8), 2)));
                    }
                }
                out.push((n, set, format!("rings {shape:?} + {extra} unrelated variables, seed {seed_kind}")));
            }
        }
    }
    out
}

pub struct C14;

impl Check for C14 {
    fn id(&self) -> &'static str {
        "C14"
    }
    fn level(&self) -> &'static str {
        "model_checking"
    }
    fn chunks(&self, _tier: Tier) -> usize {
        alphabet().len() + 1
    }
    fn stall_secs(&self, _tier: Tier) -> u64 {
        900
    }
    fn run_chunk(&self, tier: Tier, chunk: usize, ctx: &mut Ctx) {
        if chunk == alphabet().len() {
            for (n, set, desc) in ring_sets() {
                ctx.case(|| json!({"judgements": set_json(&set), "plan": [], "n": n}));
                ctx.count("judgement_sets", 1);
                ctx.count("ring_sets", 1);
                ctx.count("unifications", 1);
                ctx.distinct("nontrivial", crate::util::h64(&format!("{set:?}")));
                let (out, _) = run(n, &set, &Vec::new());
                if let Err(v) = check_outcome(&set, &out) {
                    ctx.violation(v.key, format!("{} [{desc}: {}]", v.what, show_set(&set)), json!({"judgements": set_json(&set), "plan": [], "n": n}));
                }
            }
            return;
        }
        let Chunk::Sets(first) = Chunk::Sets(chunk);
        for_each_set(first, max_size(tier), &mut |set| {
            ctx.case(|| json!({"judgements": set_json(set), "plan": []}));
            ctx.count("judgement_sets", 1);
            let (out, log) = run(N, set, &Vec::new());
            ctx.count("unifications", 1);
            let shown = || show_set(set);
            match check_outcome(set, &out) {
                Ok(conflict) => {
                    if set.len() >= 2 {
                        ctx.distinct("nontrivial", crate::util::h64(&format!("{set:?}")));
                    }
                    if conflict {
                        ctx.count("sets_with_a_conflict", 1);
                    } else if set.len() >= 3 && set.iter().any(|(_, j)| matches!(j, J::Mapping(..))) {
                        ctx.sample(|| json!({"judgements": shown(), "verdict": "one equality-free type per variable, equalities and components honoured"}));
                    }
                }
                Err(v) => {
                    ctx.violation(v.key, format!("{} [{}]", v.what, shown()), json!({"judgements": set_json(set), "plan": []}));
                    return;
                }
            }
            // every single deviation at every order point (sets of up to 3 judgements; for 4 only the folds)
            let filter: &dyn Fn(&str) -> bool = if set.len() <= 3 { &|_| true } else { &|s| s.starts_with("unify.") };
            for pl in extend(&Vec::new(), &log, filter) {
                ctx.count("unifications", 1);
                ctx.count("deviating_schedules", 1);
                let (o2, _) = run(N, set, &pl);
                if let Err(v) = check_outcome(set, &o2) {
                    ctx.violation(
                        v.key,
                        format!("{} under plan {} [{}]", v.what, plan_json(&pl), shown()),
                        json!({"judgements": set_json(set), "plan": plan_json(&pl)}),
                    );
                    break;
                }
            }
        });
    }
    fn coverage(&self, tier: Tier, total: &Ctx) -> Map<String, Value> {
        let mut m = mc_coverage(
            total,
            total.get("judgement_sets").max(1),
            total.get("unifications").max(1),
            total.get("unifications"),
            &format!(
                "all sets of <= {} judgements over a 3-variable universe and a per-variable alphabet of 28 judgements (equalities incl. v = v, Any, \
                 dynamic bytes, 9 words of all usages and widths, mappings incl. a mapping whose key and value are itself, dynamic and \
                 fixed arrays incl. self-reference, packed encodings with span lists that are empty, overlapping and unsorted, beyond \
                 bit 256, and self-referential). Each set is evaluated from scratch on the real unification::unify under a poll \
                 budget, under the canonical order and under every single deviation at the order points, and compared with a \
                 reference congruence closure: termination, no panic, exactly one equality-free expression for every variable \
                 (incl. those allocated during merging), declared equalities honoured, no spurious equality, components of meeting \
                 constructors unified when no class is conflicted. Plus the ring family: one ring of 1..16 classes or 2 to 3 rings of 1..5 classes each (member i = packed([member i+1]), one member \
                 also an address or a 160-bit word) next to 0, 1, 4 or 30 unrelated variables: cyclic evidence whose period is the least common multiple of the ring lengths (up to 60) must \
                 still end with one expression per variable. states = judgement sets; transitions = unifications executed",
                max_size(tier)
            ),
            true,
        );
        m.insert("evaluations".into(), json!(total.get("unifications")));
        m.insert("distinct_nontrivial".into(), json!(total.distinct_count("nontrivial")));
        m
    }
    fn assumptions(&self, _tier: Tier) -> Vec<String> {
        vec![
            "the quantifier's ~40 type variables are replaced by 3 (plus those the unifier allocates); judgement sets are bounded by size, not by depth of a search".into(),
            "which variable is the representative, component unification inside conflicted classes and the numbering of fresh variables are don't-cares; soundness and completeness of component unification are only checked for sets without packed encodings".into(),
        ]
    }
    fn replay(&self, replay: &Value) -> bool {
        let c = &replay["case"];
        let set = set_from_json(&c["judgements"]);
        let plan = plan_from_json(&c["plan"]);
        println!("judgements: {}\nplan: {}", show_set(&set), plan_json(&plan));
        let n = c["n"].as_u64().map(|x| x as usize).unwrap_or(N);
        let (out, _) = run(n, &set, &plan);
        match &out {
            Outcome::Done(r) => {
                for (i, t) in r.types.iter().enumerate() {
                    println!("v{i}: class {:?} type {:?}", r.classes.get(&ix(&r.vars[i])), t);
                }
            }
            other => println!("outcome: {other:?}"),
        }
        match check_outcome(&set, &out) {
            Ok(_) => false,
            Err(v) => {
                println!("observed: {}: {}", v.key, v.what);
                true
            }
        }
    }
}

#[allow(dead_code)]
fn unused(_: BTreeMap<u8, u8>) {}
