//! C02 — determinism: the same bytecode and configuration give the same layout whatever the iteration order of
//! the hash collections (deviation-bounded schedule exploration through the order-point hooks).

use crate::asm::{arrkey, assemble, mapkey_from_stack, o, op, p, pu, Tok};
use crate::c04::{build, representative_kinds, slots, Case};
use crate::corpus;
use crate::idioms::{Mode, Var, SPELLINGS};
use crate::infra::*;
use crate::obs::{analyze, Class, CountingWatchdog, Obs, Plan};
use crate::prog::{run_seq_chunk, seq_chunks};
use crate::sched::{extend, plan_from_json, plan_json};
use crate::u256::U;
use crate::util::{hex, unhex};
use serde_json::{json, Map, Value};
use storage_layout_extractor as sle;

#[derive(Clone, Copy, Debug, PartialEq, Eq)]
enum Tk {
    Sload(u8),
    Sstore(u8),
    Mask160,
    MaskFF,
    IsZero,
    ArrKey0Add,
    MapKeyCaller0,
    Caller,
    Cdl0,
    Dup1,
    Swap1,
    SloadTop,
    SstoreTop,
    UseSigned,
    MapKeyTop0,
    UseUnsigned,
    UseAddress,
    ArrKey1Add,
    MapKeyTop1,
}

/// Slot-self-referential shapes (a slot's value used as index / key into the same or another slot): the
/// 14-byte witness of the pinned tree has this shape and needs 5 tokens.
fn self_reference_family() -> Vec<Vec<Tk>> {
    let mut out = Vec::new();
    for a in 0..2u8 {
        for b in 0..2u8 {
            for x in [Tk::ArrKey0Add, Tk::MapKeyTop0] {
                for y in [None, Some(Tk::IsZero), Some(Tk::Mask160), Some(Tk::MaskFF), Some(Tk::UseSigned)] {
                    for z in [None, Some(Tk::IsZero), Some(Tk::Mask160)] {
                        let mut s = vec![Tk::Sload(a)];
                        if let Some(z) = z {
                            s.push(z);
                        }
                        s.push(x);
                        s.push(Tk::SloadTop);
                        if let Some(y) = y {
                            s.push(y);
                        }
                        s.push(Tk::Sstore(b));
                        out.push(s.clone());
                        // write through the computed key as well
                        let mut w = vec![Tk::Caller, Tk::Sload(a)];
                        if let Some(z) = z {
                            w.push(z);
                        }
                        w.push(x);
                        w.push(Tk::SstoreTop);
                        w.push(Tk::Sload(b));
                        if let Some(y) = y {
                            w.push(y);
                        }
                        w.push(Tk::Sstore(b));
                        out.push(w);
                    }
                }
            }
        }
    }
    out
}

/// Two containers whose elements are loaded from each other (or from themselves): slot types that are recursive
/// across slots, so that the conversion of one slot's type passes through the other's.
fn mutual_recursion_family() -> Vec<Vec<Tk>> {
    let mut out = Vec::new();
    let key0 = [Tk::ArrKey0Add, Tk::MapKeyTop0];
    let key1 = [Tk::ArrKey1Add, Tk::MapKeyTop1];
    for x in key0 {
        for y in key1 {
            for ta in 0..2u8 {
                for tb in 0..2u8 {
                    for mask in [None, Some(Tk::Mask160)] {
                        // container at slot 0: element[calldata] = sload(ta); container at slot 1: element[calldata] = sload(tb)
                        let mut s = vec![Tk::Sload(ta)];
                        s.extend(mask);
                        s.extend([Tk::Cdl0, x, Tk::SstoreTop, Tk::Sload(tb), Tk::Cdl0, y, Tk::SstoreTop]);
                        out.push(s.clone());
                        // the same, reading the element back before storing into the other container
                        let mut r = vec![Tk::Cdl0, x, Tk::SloadTop];
                        r.extend(mask);
                        r.extend([Tk::Cdl0, y, Tk::SstoreTop, Tk::Cdl0, y, Tk::SloadTop, Tk::Cdl0, x, Tk::SstoreTop]);
                        let _ = (ta, tb);
                        out.push(r);
                    }
                }
            }
        }
    }
    out.sort_by_key(|s| format!("{s:?}"));
    out.dedup();
    out
}

/// A word packed from two masked sources by one store (the shape solc gives short strings: a flag bit and the rest,
/// or a byte and the rest) in a slot that is also accessed as a dynamic array, with one of the sources used a second
/// time elsewhere; all orders of the three statements. Which of the two fields is registered first depends on the
/// iteration order of the exported values.
pub fn string_shape_family() -> Vec<Vec<u8>> {
    let masks: [(U, U); 2] = [(U::ONE, U::from_u64(0xfe)), (U::from_u64(0xff), U::from_u64(0xff).not())];
    let src = |k: usize| -> Vec<Tok> {
        match k {
            0 => vec![p(2), o(op::SLOAD)],
            1 => vec![p(3), o(op::SLOAD)],
            2 => vec![p(0x20), o(op::CALLDATALOAD)],
            _ => vec![o(op::CALLER)],
        }
    };
    let mut out = Vec::new();
    for (ma, mb) in masks {
        for (a, b) in [(0usize, 1usize), (1, 1), (2, 1), (3, 2), (1, 0)] {
            for extra in [false, true] {
                for array_write in [false, true] {
                    // the statements
                    let mut pack: Vec<Tok> = src(a);
                    pack.extend([pu(ma), o(op::AND)]);
                    pack.extend(src(b));
                    pack.extend([pu(mb), o(op::AND), o(op::OR), p(1), o(op::SSTORE)]);
                    let mut again: Vec<Tok> = src(b);
                    again.extend([pu(mb), o(op::AND), p(9), o(op::SSTORE)]);
                    let mut arr: Vec<Tok> = Vec::new();
                    if array_write {
                        arr.extend([p(0), o(op::CALLDATALOAD)]);
                        arr.extend(arrkey(U::ONE));
                        arr.extend([p(2), o(op::ADD), o(op::SSTORE)]);
                    } else {
                        arr.extend(arrkey(U::ONE));
                        arr.extend([p(0), o(op::CALLDATALOAD), o(op::ADD), o(op::SLOAD), o(op::POP)]);
                    }
                    let mut stmts = vec![pack, arr];
                    if extra {
                        stmts.push(again);
                    }
                    let orders: Vec<Vec<usize>> = if stmts.len() == 2 {
                        vec![vec![0, 1], vec![1, 0]]
                    } else {
                        vec![vec![0, 1, 2], vec![0, 2, 1], vec![1, 0, 2], vec![1, 2, 0], vec![2, 0, 1], vec![2, 1, 0]]
                    };
                    for ord in orders {
                        let mut t: Vec<Tok> = Vec::new();
                        for i in ord {
                            t.extend(stmts[i].iter().cloned());
                        }
                        t.push(o(op::STOP));
                        out.push(assemble(&t));
                    }
                }
            }
        }
    }
    out
}

/// One loaded word narrowed by two masks in a row (the second may claim bits the first does not have) and stored, and
/// narrowed a third way and stored again: nested packed types whose members come out of the type conversion in no
/// particular order, next to a second slot.
pub fn overrunning_mask_family() -> Vec<Vec<u8>> {
    let masks = [0xff00u64, 0xff_0000, 0xff, 0xff_ff00, 0xffff];
    let mut out = Vec::new();
    for m1 in masks {
        for m2 in masks {
            for m3 in masks {
                for s2 in [1u64, 2] {
                    let t: Vec<Tok> = vec![
                        p(0), o(op::SLOAD), o(op::DUP1),
                        pu(U::from_u64(m1)), o(op::AND), pu(U::from_u64(m2)), o(op::AND), p(1), o(op::SSTORE),
                        pu(U::from_u64(m3)), o(op::AND), p(s2), o(op::SSTORE), o(op::STOP),
                    ];
                    out.push(assemble(&t));
                }
            }
        }
    }
    out
}

/// A dynamic array at a slot number beyond the 10 000 the tool recognises when pre-folded, accessed once with the hash
/// computed at run time and once with the same hash as a literal (and the same for a slot below 10 000): what the
/// literal is taken for must not depend on which access the type checker happens to see first.
pub fn hashed_both_ways_family() -> Vec<Vec<u8>> {
    let mut out = Vec::new();
    for n in [5u64, 9_999, 10_000, 74_565, 1 << 32] {
        let slot = U::from_u64(n);
        let hash = crate::util::keccak_words(&[slot]);
        let computed = |idx: u64, value: Vec<Tok>| -> Vec<Tok> {
            let mut t = value;
            t.extend(arrkey(slot));
            t.extend([p(idx), o(op::ADD), o(op::SSTORE)]);
            t
        };
        let literal = |idx: u64, value: Vec<Tok>| -> Vec<Tok> {
            let mut t = value;
            t.extend([pu(hash), p(idx), o(op::ADD), o(op::SSTORE)]);
            t
        };
        let caller = vec![o(op::CALLER)];
        let flag = vec![o(op::CALLVALUE), o(op::ISZERO)];
        for (a, b) in [
            (computed(1, caller.clone()), literal(2, flag.clone())),
            (literal(2, flag.clone()), computed(1, caller.clone())),
            (computed(1, flag.clone()), literal(1, caller.clone())),
            (literal(0, caller.clone()), computed(0, caller.clone())),
        ] {
            let mut t = a;
            t.extend(b);
            t.push(o(op::STOP));
            out.push(assemble(&t));
        }
    }
    out
}

/// One slot number reaching storage accesses by different routes (a literal, a word read from memory that was never
/// written, a word stored to memory and read back, a computed constant, the size of empty return data): two or three
/// accesses of slot 0 / slot 1 by different routes, as keys of loads whose results go to other slots, and as keys of stores.
pub fn one_slot_by_different_routes_family() -> Vec<Vec<u8>> {
    let routes0: Vec<Vec<Tok>> = vec![
        vec![p(0)],
        vec![p(0x80), o(op::MLOAD)],
        vec![p(0), p(0x40), o(op::MSTORE), p(0x40), o(op::MLOAD)],
        vec![p(0), p(0), o(op::ADD)],
        vec![o(0x3d)],
    ];
    let routes1: Vec<Vec<Tok>> = vec![
        vec![p(1)],
        vec![p(1), p(0x40), o(op::MSTORE), p(0x40), o(op::MLOAD)],
        vec![p(0xa0), o(op::MLOAD), p(1), o(op::ADD)],
        vec![o(0x3d), p(1), o(op::ADD)],
    ];
    let mut out = Vec::new();
    for routes in [routes0, routes1] {
        for (i, r1) in routes.iter().enumerate() {
            for (j, r2) in routes.iter().enumerate() {
                if i == j {
                    continue;
                }
                // sstore(5, sload(r1)); sstore(6, sload(r2)); stop
                let mut t: Vec<Tok> = Vec::new();
                t.extend(r1.iter().cloned());
                t.extend([o(op::SLOAD), p(5), o(op::SSTORE)]);
                t.extend(r2.iter().cloned());
                t.extend([o(op::SLOAD), p(6), o(op::SSTORE), o(op::STOP)]);
                out.push(assemble(&t));
                // sstore(r1, caller); sstore(6, sload(r2)); stop
                let mut t: Vec<Tok> = vec![o(op::CALLER)];
                t.extend(r1.iter().cloned());
                t.push(o(op::SSTORE));
                t.extend(r2.iter().cloned());
                t.extend([o(op::SLOAD), p(6), o(op::SSTORE), o(op::STOP)]);
                out.push(assemble(&t));
                // three accesses: a third route in between
                let r3 = &routes[(j + 1) % routes.len()];
                let mut t: Vec<Tok> = Vec::new();
                t.extend(r1.iter().cloned());
                t.extend([o(op::SLOAD), p(5), o(op::SSTORE)]);
                t.extend(r3.iter().cloned());
                t.extend([o(op::SLOAD), p(7), o(op::SSTORE)]);
                t.extend(r2.iter().cloned());
                t.extend([o(op::SLOAD), p(6), o(op::SSTORE), o(op::STOP)]);
                out.push(assemble(&t));
            }
        }
    }
    out
}

/// The programs of the two families above as bytecode (C01 and C03 run them too: rendering a recursive slot type
/// must neither overflow the native stack nor loop).
pub fn recursive_type_programs() -> Vec<Vec<u8>> {
    self_reference_family().into_iter().chain(mutual_recursion_family()).map(|s| expand(&s)).collect()
}

fn alphabet() -> Vec<Tk> {
    vec![
        Tk::Sload(0),
        Tk::Sload(1),
        Tk::Sstore(0),
        Tk::Sstore(1),
        Tk::Mask160,
        Tk::MaskFF,
        Tk::IsZero,
        Tk::ArrKey0Add,
        Tk::MapKeyCaller0,
        Tk::Caller,
        Tk::Cdl0,
        Tk::Dup1,
        Tk::Swap1,
        Tk::UseUnsigned,
        Tk::UseSigned,
        Tk::UseAddress,
        // a storage value (or anything else on the stack) used directly as the key of a further access
        Tk::SloadTop,
        Tk::SstoreTop,
    ]
}

fn arity(t: Tk) -> (usize, usize) {
    match t {
        Tk::Sload(_) | Tk::Caller | Tk::Cdl0 | Tk::MapKeyCaller0 => (0, 1),
        Tk::Sstore(_) => (1, 0),
        Tk::Mask160 | Tk::MaskFF | Tk::IsZero | Tk::ArrKey0Add | Tk::ArrKey1Add | Tk::MapKeyTop1 => (1, 1),
        Tk::Dup1 => (1, 2),
        Tk::Swap1 => (2, 2),
        Tk::SloadTop | Tk::UseSigned | Tk::MapKeyTop0 | Tk::UseUnsigned | Tk::UseAddress => (1, 1),
        Tk::SstoreTop => (2, 0),
    }
}

fn expand(seq: &[Tk]) -> Vec<u8> {
    let mut t: Vec<Tok> = Vec::new();
    for x in seq {
        match x {
            Tk::Sload(k) => t.extend([p(*k as u64), o(op::SLOAD)]),
            Tk::Sstore(k) => t.extend([p(*k as u64), o(op::SSTORE)]),
            Tk::Mask160 => t.extend([pu(U::pow2(160).sub(U::ONE)), o(op::AND)]),
            Tk::MaskFF => t.extend([p(0xff), o(op::AND)]),
            Tk::IsZero => t.push(o(op::ISZERO)),
            Tk::ArrKey0Add => {
                t.extend(arrkey(U::ZERO));
                t.push(o(op::ADD));
            }
            Tk::MapKeyCaller0 => {
                t.push(o(op::CALLER));
                t.extend(mapkey_from_stack(U::ZERO));
            }
            Tk::Caller => t.push(o(op::CALLER)),
            Tk::Cdl0 => t.extend([p(0), o(op::CALLDATALOAD)]),
            Tk::Dup1 => t.push(o(op::DUP1)),
            Tk::Swap1 => t.push(o(op::SWAP1)),
            Tk::SloadTop => t.push(o(op::SLOAD)),
            Tk::SstoreTop => t.push(o(op::SSTORE)),
            Tk::UseSigned => t.extend([o(op::DUP1), p(0), o(op::SLT), o(op::POP)]),
            Tk::MapKeyTop0 => t.extend(mapkey_from_stack(U::ZERO)),
            Tk::MapKeyTop1 => t.extend(mapkey_from_stack(U::ONE)),
            Tk::ArrKey1Add => {
                t.extend(arrkey(U::ONE));
                t.push(o(op::ADD));
            }
            Tk::UseUnsigned => t.extend([o(op::DUP1), p(0x20), o(op::CALLDATALOAD), o(op::LT), o(op::POP)]),
            Tk::UseAddress => t.extend([o(op::DUP1), o(op::BALANCE), o(op::POP)]),
        }
    }
    assemble(&t)
}

const BUDGET: u64 = 100_000;
const NATURAL_RUNS: usize = 4;

fn run(code: &[u8], plan: &Plan) -> Obs {
    let w = CountingWatchdog::new(1, Some(BUDGET));
    analyze(code, sle::vm::Config::default(), plan, w)
}

pub struct Verdict {
    pub key: String,
    pub what: String,
    pub plan: Plan,
}

pub struct Explored {
    pub schedules: u64,
    pub points: u64,
    pub outcomes: usize,
}

/// Explores all plans up to `bound` deviations for one program.
pub fn explore_program(code: &[u8], bound: usize, max_schedules: u64) -> Result<Explored, Verdict> {
    let base = run(code, &Vec::new());
    // determinism self-check: the canonical run twice, identical observation and identical order-point log
    let again = run(code, &Vec::new());
    if base.canon() != again.canon() || base.log != again.log {
        return Err(Verdict {
            key: "machinery:canonical-run-not-reproducible".into(),
            what: format!("two runs under the canonical plan differ: {} vs {}", base.canon(), again.canon()),
            plan: Vec::new(),
        });
    }
    let reference = base.canon_result();
    let mut explored = Explored {
        schedules: 1,
        points: base.log.iter().filter(|p| p.len >= 2).count() as u64,
        outcomes: 1,
    };
    let mut frontier: Vec<(Plan, Vec<sle::verif_hooks::OrderPoint>)> = vec![(Vec::new(), base.log.clone())];
    for _depth in 0..bound {
        let mut next = Vec::new();
        for (plan, log) in &frontier {
            for pl in extend(plan, log, &|_| true) {
                if explored.schedules >= max_schedules {
                    return Ok(explored);
                }
                let o = run(code, &pl);
                explored.schedules += 1;
                if !o.plan_errors.is_empty() {
                    return Err(Verdict {
                        key: "machinery:plan-does-not-fit".into(),
                        what: format!("replaying a plan prefix diverged: {:?}", o.plan_errors),
                        plan: pl,
                    });
                }
                let got = o.canon_result();
                if got != reference {
                    let site = pl.last().map(|((s, _), _)| s.clone()).unwrap_or_default();
                    let shape = match (base.class, o.class) {
                        (_, Class::Panic) => "panic-under-some-order".to_string(),
                        (_, Class::ErrStopped) => "non-termination-under-some-order".to_string(),
                        (a, b) if a != b => format!("class-{a:?}-vs-{b:?}"),
                        _ => "different-layout".to_string(),
                    };
                    return Err(Verdict {
                        key: format!("{shape}:{site}"),
                        what: format!(
                            "canonical order gives {reference}; with {} deviation(s) ending at `{site}` it gives {got}",
                            pl.len()
                        ),
                        plan: pl,
                    });
                }
                next.push((pl, o.log));
            }
        }
        frontier = next;
    }
    Ok(explored)
}

/// Normal form of a unification outcome for comparison across schedules: per original variable its class
/// (smallest original member) and its resolved type with conflicts collapsed and fresh variables anonymised.
fn judgement_outcome(out: &crate::unif::Outcome) -> String {
    use crate::unif::{ix, Outcome};
    use sle::tc::expression::TypeExpression as TE;
    match out {
        Outcome::Done(r) => {
            let class_name = |v: &sle::tc::state::type_variable::TypeVariable| -> String {
                let c = r.classes.get(&ix(v));
                let m = r.vars.iter().position(|o| r.classes.get(&ix(o)) == c && c.is_some());
                m.map(|i| format!("v{i}")).unwrap_or_else(|| "_".into())
            };
            let render = |t: &TE| -> String {
                match t {
                    TE::Conflict { .. } => "Conflict".into(),
                    TE::Mapping { key, value } => format!("Mapping({},{})", class_name(key), class_name(value)),
                    TE::DynamicArray { element } => format!("DynArray({})", class_name(element)),
                    TE::FixedArray { element, length } => format!("FixedArray({},{length})", class_name(element)),
                    TE::Packed { types, is_struct } => format!(
                        "Packed{}[{}]",
                        if *is_struct { "S" } else { "" },
                        types.iter().map(|s| format!("{}@{}+{}", class_name(&s.typ), s.offset, s.size)).collect::<Vec<_>>().join(",")
                    ),
                    other => format!("{other:?}"),
                }
            };
            r.vars
                .iter()
                .enumerate()
                .map(|(i, v)| {
                    let mut ts: Vec<String> = r.types[i].iter().map(render).collect();
                    ts.sort();
                    format!("{}:{}", class_name(v), ts.join("|"))
                })
                .collect::<Vec<_>>()
                .join(" ; ")
        }
        Outcome::Panic(p) => format!("panic {}", panic_site(p)),
        Outcome::OverBudget => "non-terminating".into(),
        Outcome::Skipped => "skipped".into(),
        Outcome::Error(e) => format!("error {}", &e[..e.len().min(40)]),
    }
}

#[derive(Clone, Debug)]
enum Chunk {
    Judgements(usize),
    SelfReference(usize),
    Evidence(usize),
    Idioms(usize, usize),
    Corpus(usize),
}

fn corpus_programs() -> Vec<(String, Vec<u8>)> {
    corpus::load()
        .into_iter()
        .filter(|c| c.name.starts_with("PackedEncodings") || c.name.starts_with("SimpleContract"))
        .map(|c| (c.name, c.code))
        .collect()
}

fn plan(_tier: Tier) -> Vec<Chunk> {
    let mut v = Vec::new();
    for c in 0..crate::c14::alphabet().len() {
        v.push(Chunk::Judgements(c));
    }
    for c in 0..16 {
        v.push(Chunk::SelfReference(c));
    }
    for c in 0..seq_chunks(alphabet().len()) {
        v.push(Chunk::Evidence(c));
    }
    let r = representative_kinds().len();
    for a in 0..r {
        for b in 0..=r {
            v.push(Chunk::Idioms(a, b));
        }
    }
    for i in 0..corpus_programs().len() {
        v.push(Chunk::Corpus(i));
    }
    v
}

fn explore_and_record(ctx: &mut Ctx, family: &str, code: &[u8], bound: usize, cap: u64, desc: &dyn Fn() -> Value) {
    ctx.case(|| json!({"bytes": hex(code), "plan": []}));
    ctx.count("programs", 1);
    ctx.count(family, 1);
    match explore_program(code, bound, cap) {
        Ok(e) => {
            // cross-check with natural hash order (sampling, not deciding): if real random seeds produce an
            // outcome that no explored plan produced, either the deviation bound is too small or the hooks miss
            // an order-sensitive point
            let reference = run(code, &Vec::new()).canon_result();
            for _ in 0..NATURAL_RUNS {
                ctx.count("natural_runs", 1);
                let w = CountingWatchdog::new(1, Some(BUDGET));
                let o = crate::obs::analyze_natural(code, sle::vm::Config::default(), w);
                if o.canon_result() != reference {
                    ctx.violation(
                        "natural-order-dependence",
                        format!(
                            "a run with real hash seeds gives {} while the canonical order and all {} explored plans give {reference} [{}]",
                            o.canon_result(),
                            e.schedules,
                            hex(&code[..code.len().min(60)])
                        ),
                        json!({"bytes": hex(code), "plan": [], "natural": true}),
                    );
                    break;
                }
            }
            ctx.count("schedules", e.schedules);
            ctx.count("order_points_with_a_choice", e.points);
            if e.points > 0 {
                ctx.distinct("nontrivial", crate::util::h64(code));
            }
            if e.schedules >= cap {
                ctx.count("programs_where_the_schedule_cap_was_hit", 1);
            }
            if e.schedules > 50 {
                ctx.sample(|| {
                    let mut j = desc();
                    j["schedules_explored"] = json!(e.schedules);
                    j["verdict"] = json!("same class and layout under every explored order");
                    j
                });
            }
        }
        Err(v) => ctx.violation(
            v.key,
            format!("{} [{}]", v.what, hex(&code[..code.len().min(60)])),
            json!({"bytes": hex(code), "plan": plan_json(&v.plan)}),
        ),
    }
}

pub struct C02;

impl Check for C02 {
    fn id(&self) -> &'static str {
        "C02"
    }
    fn level(&self) -> &'static str {
        "model_checking"
    }
    fn chunks(&self, tier: Tier) -> usize {
        plan(tier).len()
    }
    fn stall_secs(&self, _tier: Tier) -> u64 {
        900
    }
    fn run_chunk(&self, tier: Tier, chunk: usize, ctx: &mut Ctx) {
        match plan(tier)[chunk].clone() {
            Chunk::Judgements(first) => {
                // the unifier driven directly: all judgement sets over the C14 alphabet, all single deviations
                let alpha = crate::c14::alphabet();
                let max = if tier.thorough() { 4 } else { 3 };
                fn rec(
                    alpha: &[(usize, crate::unif::J)],
                    start: usize,
                    cur: &mut Vec<(usize, crate::unif::J)>,
                    max: usize,
                    f: &mut dyn FnMut(&[(usize, crate::unif::J)]),
                ) {
                    f(cur);
                    if cur.len() >= max {
                        return;
                    }
                    for i in start..alpha.len() {
                        cur.push(alpha[i].clone());
                        rec(alpha, i + 1, cur, max, f);
                        cur.pop();
                    }
                }
                let mut cur = vec![alpha[first].clone()];
                rec(&alpha, first + 1, &mut cur, max, &mut |set| {
                    if set.len() < 2 {
                        return;
                    }
                    ctx.case(|| json!({"judgements": crate::unif::set_json(set), "plan": []}));
                    ctx.count("judgement_sets", 1);
                    let (base, log) = crate::unif::run(crate::c14::N, set, &Vec::new());
                    let reference = judgement_outcome(&base);
                    ctx.count("schedules", 1);
                    let filter: &dyn Fn(&str) -> bool = if set.len() <= 3 { &|_| true } else { &|s| s.starts_with("unify.") };
                    let plans = extend(&Vec::new(), &log, filter);
                    if !plans.is_empty() {
                        ctx.distinct("nontrivial", crate::util::h64(&format!("{set:?}")));
                    }
                    for pl in plans {
                        ctx.count("schedules", 1);
                        let (o, _) = crate::unif::run(crate::c14::N, set, &pl);
                        let got = judgement_outcome(&o);
                        if got != reference {
                            let site = pl.last().map(|((s, _), _)| s.clone()).unwrap_or_default();
                            ctx.violation(
                                format!("unifier-outcome-depends-on-order:{site}"),
                                format!(
                                    "judgements [{}]: canonical order resolves to [{reference}], plan {} to [{got}]",
                                    crate::unif::show_set(set),
                                    plan_json(&pl)
                                ),
                                json!({"judgements": crate::unif::set_json(set), "plan": plan_json(&pl)}),
                            );
                            break;
                        }
                    }
                });
            }
            Chunk::SelfReference(c) => {
                for (i, seq) in self_reference_family().into_iter().chain(mutual_recursion_family()).enumerate() {
                    if i % 16 != c {
                        continue;
                    }
                    let code = expand(&seq);
                    let bound = if tier.thorough() { 2 } else { 1 };
                    explore_and_record(ctx, "self_reference_programs", &code, bound, 20_000, &|| json!({"tokens": format!("{seq:?}"), "bytes": hex(&code)}));
                }
                for (i, code) in hashed_both_ways_family().into_iter().enumerate() {
                    if i % 16 != c {
                        continue;
                    }
                    explore_and_record(ctx, "hashed_both_ways_programs", &code, 1, 20_000, &|| json!({"bytes": hex(&code)}));
                }
                for (i, code) in one_slot_by_different_routes_family().into_iter().enumerate() {
                    if i % 16 != c {
                        continue;
                    }
                    explore_and_record(ctx, "one_slot_by_different_routes_programs", &code, if tier.thorough() { 2 } else { 1 }, 20_000, &|| json!({"bytes": hex(&code)}));
                }
                for (i, code) in overrunning_mask_family().into_iter().enumerate() {
                    if i % 16 != c {
                        continue;
                    }
                    explore_and_record(ctx, "overrunning_mask_programs", &code, 1, 20_000, &|| json!({"bytes": hex(&code)}));
                }
                for (i, code) in string_shape_family().into_iter().enumerate() {
                    if i % 16 != c {
                        continue;
                    }
                    explore_and_record(ctx, "string_shaped_words", &code, 1, 20_000, &|| json!({"bytes": hex(&code)}));
                }
            }
            Chunk::Evidence(c) => {
                let alpha = alphabet();
                let max = if tier.thorough() { 5 } else { 4 };
                run_seq_chunk(alpha.len(), max, c, &mut |ix| {
                    let seq: Vec<Tk> = ix.iter().map(|i| alpha[*i]).collect();
                    let mut depth = 0usize;
                    for t in &seq {
                        let (pops, pushes) = arity(*t);
                        if depth < pops {
                            return false;
                        }
                        depth = depth - pops + pushes;
                    }
                    // at least one storage access, otherwise there is no layout to depend on anything
                    if !seq.iter().any(|t| matches!(t, Tk::Sload(_) | Tk::Sstore(_))) {
                        return true;
                    }
                    let code = expand(&seq);
                    // bound 2 only for the shortest programs in the thorough tier
                    let bound = if tier.thorough() && ix.len() <= 3 { 2 } else { 1 };
                    explore_and_record(ctx, "evidence_sequences", &code, bound, 4_000, &|| json!({"tokens": format!("{seq:?}"), "bytes": hex(&code)}));
                    true
                });
            }
            Chunk::Idioms(a, b) => {
                let ks = representative_kinds();
                let sl = slots();
                let modes = [Mode::Read, Mode::Write, Mode::Both];
                for (mi, m1) in modes.iter().enumerate() {
                    for sp in 0..if tier.thorough() { SPELLINGS.len() } else { 2 } {
                        let mut vars = vec![(
                            Var {
                                slot: sl[1],
                                kind: ks[a].clone(),
                            },
                            *m1,
                        )];
                        if b < ks.len() {
                            vars.push((
                                Var {
                                    slot: sl[4],
                                    kind: ks[b].clone(),
                                },
                                modes[(mi + sp) % 3],
                            ));
                        }
                        let case = Case { vars, spelling: sp };
                        let code = build(&case);
                        explore_and_record(ctx, "idiom_programs", &code, 1, 3_000, &|| crate::c04::case_json(&case));
                    }
                }
            }
            Chunk::Corpus(i) => {
                let (name, code) = corpus_programs()[i].clone();
                let cap = if tier.thorough() { 20_000 } else { 1_500 };
                explore_and_record(ctx, "shipped_contracts", &code, 1, cap, &|| json!({"contract": name}));
            }
        }
    }
    fn coverage(&self, tier: Tier, total: &Ctx) -> Map<String, Value> {
        let mut m = mc_coverage(
            total,
            total.distinct_count("nontrivial").max(1),
            total.get("schedules").max(1),
            total.get("schedules"),
            &format!(
                "the unifier driven directly on all judgement sets of 2..{} judgements over the C14 alphabet (3 variables x 27 judgements) \
                 under every single deviation, outcomes compared after normalisation; programs: all stack-safe sequences <= {} over 18 evidence tokens (SLOAD / SSTORE of slots 0 and 1, SLOAD / SSTORE with the key taken from the stack, 160-bit and 8-bit \
                 masks, ISZERO, keccak(0) + x, keccak(caller . 0), CALLER, CALLDATALOAD, DUP1, SWAP1) that touch storage; 240 \
                 slot-self-referential programs of 4-9 tokens (a slot's value used as array index / mapping key for a second access, \
                 with masks, zero tests and signed use in between); 96 programs in which slot 0 or 1 reaches two or three storage accesses by different routes (a literal, a read of memory that was never written, a word stored to memory and read back, a computed constant, RETURNDATASIZE); idiom \
                 programs with 1-2 variables from the C04 generator (7 x 8 kind combinations x 3 modes x {} spellings); the shipped \
                 PackedEncodings and SimpleContract. Schedules: a plan is a list of (order point, permutation) on top of the \
                 canonical order at the hooked points (storage / memory export, the type-variable and value tables, the rule set, \
                 the initial unions, every per-class fold, the sets of new equalities / judgements / variables); explored with \
                 deviation bound 0 and 1{}, prefix-replay style; at a deviating point with n <= 4 elements all n!-1 alternatives, \
                 else reverse / rotate +-1 / swap first two / swap last two. Oracle: class and layout (conflict payloads aside) equal \
                 those of the canonical order. Every run is replayed deterministically (canonical run executed twice with identical \
                 observation and order-point log; a plan that does not fit its point is a machinery error). states = programs with \
                 at least one order point that offers a choice; transitions = schedules executed",
                if tier.thorough() { 4 } else { 3 },
                if tier.thorough() { 5 } else { 4 },
                if tier.thorough() { 4 } else { 2 },
                if tier.thorough() { " (bound 2 for sequences <= 3)" } else { "" }
            ),
            false,
        );
        m.insert("evaluations".into(), json!(total.get("schedules")));
        m.insert("distinct_nontrivial".into(), json!(total.distinct_count("nontrivial")));
        m.insert("schedule_caps_hit".into(), json!(total.get("programs_where_the_schedule_cap_was_hit")));
        m
    }
    fn assumptions(&self, _tier: Tier) -> Vec<String> {
        vec![
            "the hooks cover every place where a hash collection is turned into a sequence (list in DESIGN.md section 7); natural hash order is a subset of the explored permutations at those points".into(),
            "at the two VM export points the whole exported vector is permuted, a superset of what natural map iteration can produce".into(),
            "conflict explanations, type-variable numbers and the order of error payloads are don't-cares".into(),
            "4 natural runs per program (real hash seeds, no controller) are a sampling cross-check of the hooks' completeness and of the deviation bound; they never decide on their own that the property holds".into(),
            "a per-program cap on the number of schedules applies to the shipped contracts (reported as schedule_caps_hit); below the cap the enumeration is complete for the stated deviation bound".into(),
        ]
    }
    fn replay(&self, replay: &Value) -> bool {
        let c = &replay["case"];
        if c.get("judgements").is_some() {
            let set = crate::unif::set_from_json(&c["judgements"]);
            let plan = plan_from_json(&c["plan"]);
            let a = judgement_outcome(&crate::unif::run(crate::c14::N, &set, &Vec::new()).0);
            let b = judgement_outcome(&crate::unif::run(crate::c14::N, &set, &plan).0);
            println!("judgements: {}
canonical order: {a}
plan {}: {b}", crate::unif::show_set(&set), plan_json(&plan));
            return a != b;
        }
        let code = unhex(c["bytes"].as_str().unwrap());
        let plan = plan_from_json(&c["plan"]);
        if c["natural"] == true {
            // not replayable by construction: run naturally many times and report the distinct outcomes
            let mut outcomes = std::collections::BTreeMap::new();
            for _ in 0..200 {
                let w = CountingWatchdog::new(1, Some(BUDGET));
                *outcomes.entry(crate::obs::analyze_natural(&code, sle::vm::Config::default(), w).canon_result()).or_insert(0) += 1;
            }
            println!("200 natural runs: {outcomes:?}");
            return outcomes.len() > 1;
        }
        let base = run(&code, &Vec::new());
        let o = run(&code, &plan);
        println!("code: {}", hex(&code[..code.len().min(80)]));
        println!("canonical order: {}", base.canon_result());
        println!("plan {}: {}", plan_json(&plan), o.canon_result());
        let again = run(&code, &plan);
        if again.canon() != o.canon() {
            println!("MACHINERY: the same plan gave two different observations");
        }
        base.canon_result() != o.canon_result()
    }
}
