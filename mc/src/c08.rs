//! C08 — control flow is followed exactly as the EVM allows.

use crate::asm::{assemble, op, Tok};
use crate::c10::ref_kinds;
use crate::infra::*;
use crate::obs::lazy;
use crate::prog::{run_seq_chunk, seq_chunks};
use crate::ref_evm::{explore, reach_over, Limits};
use crate::u256::U;
use crate::util::{hex, unhex};
use crate::vmrun::{run_vm, VmRun};
use serde_json::{json, Map, Value};
use std::collections::BTreeSet;
use storage_layout_extractor as sle;

#[derive(Clone, Copy, Debug, PartialEq, Eq)]
pub enum Target {
    Label(u8),
    IntoPush,
    AfterLabel(u8),
    Len,
    LenPlus1,
    Big32(u8),
    Big255(u8),
    Big64(u8),
    Computed(u8),
    /// label k reached from a PC read plus or minus the distance (second field: one byte past the label)
    PcRel(u8, bool),
    /// a target that is not a constant (CALLDATALOAD(0))
    Symbolic,
}

#[derive(Clone, Copy, Debug, PartialEq, Eq)]
pub enum Cond {
    Unknown,
    One,
    Zero,
}

#[derive(Clone, Copy, Debug, PartialEq, Eq)]
pub enum Tk {
    L,
    P1,
    CallValue,
    Stop,
    Return0,
    Revert0,
    SelfDestruct0,
    Invalid,
    Unassigned,
    PushJumpdests,
    /// a PUSH32 with only four data bytes (JUMPDEST PC PC SSTORE): cut short by the end of the code when it comes last
    TruncPush,
    Sentinel,
    J(Target),
    JI(Cond, Target),
    // only used by C17
    Pop,
    Add,
    Dup16,
    Swap16,
}

pub fn alphabet() -> Vec<Tk> {
    use Target::*;
    let mut v = vec![
        Tk::L,
        Tk::P1,
        Tk::CallValue,
        Tk::Stop,
        Tk::Return0,
        Tk::Revert0,
        Tk::SelfDestruct0,
        Tk::Invalid,
        Tk::Unassigned,
        Tk::PushJumpdests,
        Tk::TruncPush,
        Tk::Sentinel,
    ];
    for t in [Label(0), Label(1), IntoPush, AfterLabel(0), Len, LenPlus1, Big32(0), Big64(0), Big255(0), Computed(0)] {
        v.push(Tk::J(t));
    }
    for t in [Label(0), Label(1), IntoPush, AfterLabel(0), Len, Big32(0), Big64(0)] {
        v.push(Tk::JI(Cond::Unknown, t));
    }
    v.push(Tk::JI(Cond::One, Label(0)));
    v.push(Tk::JI(Cond::Zero, Label(0)));
    v
}

fn push_target(t: Target, defined: u8, out: &mut Vec<Tok>) {
    match t {
        Target::PcRel(k, past) => {
            let d = if past { 2 } else { 1 };
            out.push(Tok::Op(op::PC));
            if k < defined {
                // backward: pc - distance
                out.extend([Tok::PushDistance(k, d, false), Tok::Op(0x90), Tok::Op(op::SUB)]);
            } else {
                out.extend([Tok::PushDistance(k, d, true), Tok::Op(op::ADD)]);
            }
        }
        Target::Label(k) => out.push(Tok::PushLabel(k, U::ZERO)),
        Target::IntoPush => out.push(Tok::PushLabel(100, U::ZERO)),
        Target::AfterLabel(k) => out.push(Tok::PushLabelPlus(k, 1)),
        Target::Len => out.push(Tok::PushLen(0)),
        Target::LenPlus1 => out.push(Tok::PushLen(1)),
        Target::Big32(k) => out.push(Tok::PushLabel(k, U::pow2(32))),
        Target::Big255(k) => out.push(Tok::PushLabel(k, U::pow2(255))),
        Target::Big64(k) => out.push(Tok::PushLabel(k, U::pow2(64))),
        Target::Symbolic => {
            out.push(Tok::Op(op::PUSH0));
            out.push(Tok::Op(op::CALLDATALOAD));
        }
        Target::Computed(k) => {
            // (addr(label) - 1) + 1, computed on the stack
            out.push(Tok::PushLabelPlus(k, -1));
            out.push(Tok::Push(U::ONE));
            out.push(Tok::Op(op::ADD));
        }
    }
}

fn labels_needed(t: Target) -> usize {
    match t {
        Target::Label(k) | Target::AfterLabel(k) | Target::Big32(k) | Target::Big255(k) | Target::Big64(k) | Target::Computed(k) | Target::PcRel(k, _) => {
            k as usize + 1
        }
        _ => 0,
    }
}

pub fn expand(seq: &[Tk]) -> Vec<Tok> {
    let mut out = Vec::new();
    let mut label = 0u8;
    let mut marked = false;
    for t in seq {
        match t {
            Tk::L => {
                out.push(Tok::Label(label));
                label += 1;
            }
            Tk::P1 => out.push(Tok::Push(U::ONE)),
            Tk::CallValue => out.push(Tok::Op(op::CALLVALUE)),
            Tk::Stop => out.push(Tok::Op(op::STOP)),
            Tk::Return0 => out.extend([Tok::Op(op::PUSH0), Tok::Op(op::PUSH0), Tok::Op(op::RETURN)]),
            Tk::Revert0 => out.extend([Tok::Op(op::PUSH0), Tok::Op(op::PUSH0), Tok::Op(op::REVERT)]),
            Tk::SelfDestruct0 => out.extend([Tok::Op(op::PUSH0), Tok::Op(op::SELFDESTRUCT)]),
            Tk::Invalid => out.push(Tok::Op(op::INVALID)),
            Tk::Unassigned => out.push(Tok::Op(0x0c)),
            Tk::PushJumpdests => {
                out.push(Tok::Raw(vec![0x61]));
                if !marked {
                    out.push(Tok::Mark(100));
                    marked = true;
                }
                out.push(Tok::Raw(vec![0x5b, 0x5b]));
            }
            Tk::TruncPush => {
                out.push(Tok::Raw(vec![0x7f]));
                if !marked {
                    out.push(Tok::Mark(100));
                    marked = true;
                }
                out.push(Tok::Raw(vec![0x5b, 0x58, 0x58, 0x55]));
            }
            Tk::Sentinel => out.extend([Tok::Op(op::PC), Tok::Op(op::PC), Tok::Op(op::SSTORE)]),
            Tk::Pop => out.push(Tok::Op(op::POP)),
            Tk::Add => out.push(Tok::Op(op::ADD)),
            Tk::Dup16 => out.push(Tok::Op(0x8f)),
            Tk::Swap16 => out.push(Tok::Op(0x9f)),
            Tk::J(t) => {
                push_target(*t, label, &mut out);
                out.push(Tok::Op(op::JUMP));
            }
            Tk::JI(c, t) => {
                out.push(match c {
                    Cond::Unknown => Tok::Op(op::CALLVALUE),
                    Cond::One => Tok::Push(U::ONE),
                    Cond::Zero => Tok::Op(op::PUSH0),
                });
                push_target(*t, label, &mut out);
                out.push(Tok::Op(op::JUMPI));
            }
        }
    }
    out
}

/// Programs whose targets name a label the program does not have are skipped (they duplicate `Len`).
pub fn well_formed(seq: &[Tk]) -> bool {
    let labels = seq.iter().filter(|t| **t == Tk::L).count();
    let uses_push = seq.iter().any(|t| matches!(t, Tk::J(Target::IntoPush) | Tk::JI(_, Target::IntoPush)));
    let has_push = seq.iter().any(|t| *t == Tk::PushJumpdests || *t == Tk::TruncPush);
    if uses_push && !has_push {
        return false;
    }
    seq.iter().all(|t| match t {
        Tk::J(x) | Tk::JI(_, x) => labels_needed(*x) <= labels,
        _ => true,
    })
}

/// Loops whose conditional jump takes its target from the stack and advances it on every iteration, so that
/// the same JUMPI sees a different target on each visit (valid first, then whatever the tail holds).
pub fn drifting_target_programs() -> Vec<Vec<u8>> {
    let tails: [&[u8]; 4] = [&[0x5b], &[0x00], &[0x60, 0x5b], &[0xfe]];
    let mut tail_lists: Vec<Vec<u8>> = vec![vec![]];
    for _ in 0..4 {
        let mut next = Vec::new();
        for t in &tail_lists {
            for piece in tails {
                let mut n = t.clone();
                n.extend_from_slice(piece);
                next.push(n);
            }
        }
        tail_lists = next;
    }
    let mut programs = Vec::new();
    for tail in tail_lists {
        for step in [1u8, 2] {
            for delta in [0u8, 1] {
                for cond in [0x34u8, 0x01] {
                    // PUSH1 t0; JUMPDEST; cond; DUP2; JUMPI; PUSH1 step; ADD; PUSH1 2; JUMP; tail
                    let cond_bytes: Vec<u8> = if cond == 0x34 { vec![0x34] } else { vec![0x60, 0x01] };
                    let head_len = 2 + 1 + cond_bytes.len() + 1 + 1 + 2 + 1 + 2 + 1;
                    let t0 = head_len as u8 + delta;
                    let mut code = vec![0x60, t0, 0x5b];
                    code.extend(&cond_bytes);
                    code.extend([0x81, 0x57, 0x60, step, 0x01, 0x60, 0x02, 0x56]);
                    code.extend(&tail);
                    programs.push(code);
                }
            }
        }
    }
    programs
}

/// Two conditional jumps to two blocks, every block ending in each kind of halting instruction (or in none, so that it
/// falls through or runs off the end of the code): how one thread ends must not affect the threads still waiting.
pub fn dispatcher_programs() -> Vec<Vec<Tk>> {
    let ends: [Option<Tk>; 7] = [None, Some(Tk::Stop), Some(Tk::Return0), Some(Tk::Revert0), Some(Tk::Invalid), Some(Tk::SelfDestruct0), Some(Tk::Unassigned)];
    let mut out = Vec::new();
    for (x, y) in [(0u8, 1u8), (1, 0)] {
        for e0 in ends {
            for e1 in ends {
                for e2 in ends {
                    let mut s = vec![Tk::JI(Cond::Unknown, Target::Label(x)), Tk::JI(Cond::Unknown, Target::Label(y)), Tk::Sentinel];
                    s.extend(e0);
                    s.extend([Tk::L, Tk::Sentinel]);
                    s.extend(e1);
                    s.extend([Tk::L, Tk::Sentinel]);
                    s.extend(e2);
                    out.push(s);
                }
            }
        }
    }
    out
}

/// Jumps whose target is computed from a PC read: all sequences up to `len` over labels, stores, halting instructions, push
/// data and PC-relative jumps (to a label before or after the jump, and to the byte after it).
pub fn pc_relative_programs(len: usize) -> Vec<Vec<Tk>> {
    let alpha = [
        Tk::L,
        Tk::Sentinel,
        Tk::Stop,
        Tk::Invalid,
        Tk::PushJumpdests,
        Tk::J(Target::PcRel(0, false)),
        Tk::J(Target::PcRel(1, false)),
        Tk::J(Target::PcRel(0, true)),
        Tk::JI(Cond::Unknown, Target::PcRel(0, false)),
        Tk::JI(Cond::Unknown, Target::PcRel(1, false)),
        Tk::JI(Cond::Unknown, Target::PcRel(0, true)),
    ];
    let mut out: Vec<Vec<Tk>> = Vec::new();
    let mut layer: Vec<Vec<Tk>> = vec![vec![]];
    for _ in 0..len {
        let mut next = Vec::new();
        for s in &layer {
            for t in alpha {
                let mut n = s.clone();
                n.push(t);
                next.push(n);
            }
        }
        out.extend(next.iter().filter(|s| well_formed(s) && s.iter().any(|t| matches!(t, Tk::J(Target::PcRel(..)) | Tk::JI(_, Target::PcRel(..))))).cloned());
        layer = next;
    }
    out
}

pub struct Verdict {
    pub key: String,
    pub what: String,
}

/// Bounded check for programs with loops: executed offsets stay inside the over-approximated control-flow graph
/// and cover everything the reference reaches on paths that visit no offset more than twice.
pub fn check_looping(code: &[u8]) -> Result<bool, Verdict> {
    let kinds = ref_kinds(code);
    let out = match run_vm(code, sle::vm::Config::default(), lazy()) {
        VmRun::Ran(o) => o,
        _ => return Ok(false),
    };
    let e: BTreeSet<u32> = out.executed.iter().copied().filter(|i| kinds[*i as usize]).collect();
    let over = reach_over(code);
    if let Some(bad) = e.iter().find(|i| !over.contains(i)) {
        return Err(Verdict {
            key: format!("executed-unreachable:{}", describe(code, *bad)),
            what: format!("offset {bad} is executed but no EVM control flow reaches it"),
        });
    }
    if let VmRun::Ran(o) = run_vm(code, sle::vm::Config::default().with_permissive_errors(true), lazy()) {
        if let Some(bad) = o.executed.iter().copied().filter(|i| kinds[*i as usize]).find(|i| !over.contains(i)) {
            return Err(Verdict {
                key: format!("permissive:executed-unreachable:{}", describe(code, bad)),
                what: format!("in permissive mode offset {bad} is executed but no EVM control flow reaches it"),
            });
        }
    }
    let lim = Limits {
        max_paths: 512,
        max_steps_per_path: 1024,
        max_visits: 2,
    };
    let x = explore(code, false, &lim);
    if x.paths.len() >= lim.max_paths {
        return Ok(false);
    }
    // exact direction of the first kind: everything executed must be reachable by SOME EVM path; the reference with
    // a higher visit bound over-approximates what the tool (iteration limit 10) can reach
    let wide = explore(
        code,
        false,
        &Limits {
            max_paths: 4096,
            max_steps_per_path: 4096,
            max_visits: 11,
        },
    );
    if wide.paths.len() < 4096 {
        if let Some(bad) = e.iter().find(|i| !wide.reachable.contains(i)) {
            return Err(Verdict {
                key: format!("executed-unreachable:{}", describe(code, *bad)),
                what: format!("offset {bad} is executed but no EVM path with at most 11 visits per instruction reaches it (reachable: {:?})", wide.reachable),
            });
        }
    }
    if let Some(missed) = x.reachable.iter().find(|i| code[**i as usize] != 0x5b && !e.contains(i)) {
        return Err(Verdict {
            key: format!("reachable-not-executed:{}", describe(code, *missed)),
            what: format!("offset {missed} is reached by an EVM path that visits no instruction more than twice but was never executed (executed: {e:?})"),
        });
    }
    Ok(true)
}

/// The oracle on one byte string. Ok(nontrivial?) or a verdict.
pub fn check_code(code: &[u8]) -> Result<(bool, bool), Verdict> {
    let kinds = ref_kinds(code);
    let out = match run_vm(code, sle::vm::Config::default(), lazy()) {
        VmRun::Ran(o) => o,
        VmRun::Panic(_) | VmRun::DisassemblyError(_) | VmRun::ConstructError(_) => return Ok((false, false)), // C01 / C10 business
    };
    let e: BTreeSet<u32> = out.executed.iter().copied().filter(|i| kinds[*i as usize]).collect();
    let over = reach_over(code);
    if let Some(bad) = e.iter().find(|i| !over.contains(i)) {
        return Err(Verdict {
            key: format!("executed-unreachable:{}", describe(code, *bad)),
            what: format!("offset {bad} is executed but no EVM control flow reaches it"),
        });
    }
    let x = explore(code, false, &Limits::default());
    if x.capped || x.loops {
        return Ok((false, false));
    }
    let reach = &x.reachable;
    if let Some(bad) = e.iter().find(|i| !reach.contains(i)) {
        // find which transfer brought us there: report the class by the kind of the offending target
        return Err(Verdict {
            key: format!("executed-unreachable:{}", describe(code, *bad)),
            what: format!(
                "offset {bad} is executed but is not reachable in the EVM control-flow graph (reachable: {:?})",
                reach
            ),
        });
    }
    if let Some(missed) = reach.iter().find(|i| code[**i as usize] != 0x5b && !e.contains(i)) {
        return Err(Verdict {
            key: format!("reachable-not-executed:{}", describe(code, *missed)),
            what: format!("offset {missed} is reachable in the EVM control-flow graph but was never executed (executed: {e:?})"),
        });
    }
    // a JUMPDEST is a don't-care only where a JUMP lands on it (the tool steps past it by design); one that is entered by
    // falling into it or by a conditional jump (taken or not) is an instruction like any other
    let mut entered: BTreeSet<u32> = BTreeSet::new();
    for p in &x.paths {
        if let Some(first) = p.executed.first() {
            if code[*first as usize] == 0x5b {
                entered.insert(*first);
            }
        }
        for w in p.executed.windows(2) {
            if code[w[1] as usize] == 0x5b && kinds[w[1] as usize] && !(code[w[0] as usize] == 0x56 && kinds[w[0] as usize]) {
                entered.insert(w[1]);
            }
        }
    }
    if let Some(missed) = entered.iter().find(|i| !e.contains(i)) {
        return Err(Verdict {
            key: format!("reachable-not-executed:JUMPDEST-entered-without-a-JUMP:{}", describe(code, *missed)),
            what: format!("the JUMPDEST at offset {missed} is entered by falling into it or by a conditional jump but was never executed (executed: {e:?})"),
        });
    }
    // the error mode decides what is REPORTED, never where control goes: same two inclusions in permissive mode
    if let VmRun::Ran(o) = run_vm(code, sle::vm::Config::default().with_permissive_errors(true), lazy()) {
        let ep: BTreeSet<u32> = o.executed.iter().copied().filter(|i| kinds[*i as usize]).collect();
        if let Some(bad) = ep.iter().find(|i| !reach.contains(i)) {
            return Err(Verdict {
                key: format!("permissive:executed-unreachable:{}", describe(code, *bad)),
                what: format!("in permissive mode offset {bad} is executed but is not reachable in the EVM control-flow graph (reachable: {reach:?})"),
            });
        }
        if let Some(missed) = reach.iter().find(|i| code[**i as usize] != 0x5b && !ep.contains(i)) {
            return Err(Verdict {
                key: format!("permissive:reachable-not-executed:{}", describe(code, *missed)),
                what: format!("in permissive mode offset {missed} is reachable in the EVM control-flow graph but was never executed (executed: {ep:?})"),
            });
        }
    }
    // tight limits must not cut anything when they do not bind: no JUMPDEST is forked to more than once
    let mut taken_edges: std::collections::BTreeMap<u32, BTreeSet<u32>> = std::collections::BTreeMap::new();
    for p in &x.paths {
        let mut cursor = 0;
        for (i, off) in p.executed.iter().enumerate() {
            if code[*off as usize] == 0x57 && kinds[*off as usize] && cursor < p.branches.len() {
                if p.branches[cursor] {
                    if let Some(next) = p.executed.get(i + 1) {
                        taken_edges.entry(*next).or_default().insert(*off);
                    }
                }
                cursor += 1;
            }
        }
    }
    if taken_edges.values().all(|s| s.len() <= 1) {
        let tight = sle::vm::Config::default().with_max_iterations_per_opcode(1).with_max_forks_per_fork_target(1);
        if let VmRun::Ran(o) = run_vm(code, tight, lazy()) {
            let e1: BTreeSet<u32> = o.executed.iter().copied().filter(|i| kinds[*i as usize]).collect();
            if let Some(missed) = reach.iter().find(|i| code[**i as usize] != 0x5b && !e1.contains(i)) {
                return Err(Verdict {
                    key: format!("reachable-not-executed-under-limits-that-do-not-bind:{}", describe(code, *missed)),
                    what: format!("with iteration limit 1 and fork limit 1 (no target is forked to twice, no instruction repeats) offset {missed} is not executed"),
                });
            }
        }
    }
    let has_dead = (0..code.len() as u32).any(|i| kinds[i as usize] && !reach.contains(&i));
    let has_jump = code.iter().zip(&kinds).any(|(b, k)| *k && (*b == 0x56 || *b == 0x57));
    Ok((has_jump, has_dead))
}

fn describe(code: &[u8], off: u32) -> String {
    // what precedes the offending offset: the nearest halting / jump opcode before it
    let kinds = ref_kinds(code);
    let mut prev = None;
    let mut i = off as usize;
    while i > 0 {
        i -= 1;
        if kinds[i] {
            prev = Some(code[i]);
            break;
        }
    }
    match prev {
        Some(0xff) => "after-SELFDESTRUCT".into(),
        Some(0x00) => "after-STOP".into(),
        Some(0xf3) => "after-RETURN".into(),
        Some(0xfd) => "after-REVERT".into(),
        Some(0xfe) => "after-INVALID".into(),
        Some(0x56) => "after-JUMP".into(),
        Some(0x57) => "after-JUMPI".into(),
        Some(b) if crate::ref_evm::arity(b).is_none() => "after-unassigned".into(),
        Some(0x5b) => "after-JUMPDEST".into(),
        Some(_) => "after-other".into(),
        None => "start".into(),
    }
}

pub struct C08;

fn max_len(tier: Tier) -> usize {
    if tier.thorough() {
        6
    } else {
        5
    }
}

impl Check for C08 {
    fn id(&self) -> &'static str {
        "C08"
    }
    fn level(&self) -> &'static str {
        "model_checking"
    }
    fn chunks(&self, _tier: Tier) -> usize {
        seq_chunks(alphabet().len()) + 1
    }
    fn run_chunk(&self, tier: Tier, chunk: usize, ctx: &mut Ctx) {
        let alpha = alphabet();
        let n = alpha.len();
        if chunk == seq_chunks(n) {
            for seq in dispatcher_programs() {
                let code = assemble(&expand(&seq));
                ctx.case(|| json!({"bytes": hex(&code)}));
                ctx.count("programs", 1);
                ctx.count("dispatcher_programs", 1);
                match check_code(&code) {
                    Ok((has_jump, _)) => {
                        if has_jump {
                            ctx.count("with_jump_and_exact_cfg", 1);
                            ctx.distinct("nontrivial", crate::util::h64(&code));
                        }
                    }
                    Err(v) => ctx.violation(v.key, format!("{} [{:?} = {}]", v.what, seq, hex(&code)), json!({"bytes": hex(&code)})),
                }
            }
            for seq in pc_relative_programs(if tier.thorough() { 5 } else { 4 }) {
                let code = assemble(&expand(&seq));
                ctx.case(|| json!({"bytes": hex(&code)}));
                ctx.count("programs", 1);
                ctx.count("pc_relative_programs", 1);
                let looping = {
                    // a backward jump makes a loop: those are checked against the bounded-unrolling reference
                    let mut defined = 0u8;
                    let mut back = false;
                    for t in &seq {
                        match t {
                            Tk::L => defined += 1,
                            Tk::J(Target::PcRel(k, _)) | Tk::JI(_, Target::PcRel(k, _)) if *k < defined => back = true,
                            _ => {}
                        }
                    }
                    back
                };
                if looping {
                    match check_looping(&code) {
                        Ok(true) => {
                            ctx.distinct("nontrivial", crate::util::h64(&code));
                            ctx.count("with_jump_and_exact_cfg", 1);
                        }
                        Ok(false) => {}
                        Err(v) => ctx.violation(v.key, format!("{} [{:?} = {}]", v.what, seq, hex(&code)), json!({"bytes": hex(&code), "looping": true})),
                    }
                } else {
                    match check_code(&code) {
                        Ok((has_jump, _)) => {
                            if has_jump {
                                ctx.count("with_jump_and_exact_cfg", 1);
                                ctx.distinct("nontrivial", crate::util::h64(&code));
                            }
                        }
                        Err(v) => ctx.violation(v.key, format!("{} [{:?} = {}]", v.what, seq, hex(&code)), json!({"bytes": hex(&code)})),
                    }
                }
            }
            for code in drifting_target_programs() {
                ctx.case(|| json!({"bytes": hex(&code), "looping": true}));
                ctx.count("programs", 1);
                ctx.count("drifting_target_loops", 1);
                match check_looping(&code) {
                    Ok(true) => {
                        ctx.distinct("nontrivial", crate::util::h64(&code));
                        ctx.count("with_jump_and_exact_cfg", 1);
                    }
                    Ok(false) => {}
                    Err(v) => ctx.violation(v.key, format!("{} [{}]", v.what, hex(&code)), json!({"bytes": hex(&code), "looping": true})),
                }
            }
            return;
        }
        run_seq_chunk(n, max_len(tier), chunk, &mut |ix| {
            let seq: Vec<Tk> = ix.iter().map(|i| alpha[*i]).collect();
            if !well_formed(&seq) {
                // a longer sequence may define the missing label
                return true;
            }
            let code = assemble(&expand(&seq));
            ctx.case(|| json!({"bytes": hex(&code)}));
            ctx.count("programs", 1);
            match check_code(&code) {
                Ok((has_jump, has_dead)) => {
                    if has_jump {
                        ctx.count("with_jump_and_exact_cfg", 1);
                        ctx.distinct("nontrivial", crate::util::h64(&code));
                    }
                    if has_dead {
                        ctx.count("with_dead_code", 1);
                        ctx.sample(|| json!({"tokens": format!("{seq:?}"), "bytes": hex(&code), "verdict": "executed set = EVM-reachable set"}));
                    }
                }
                Err(v) => ctx.violation(v.key, format!("{} [{:?} = {}]", v.what, seq, hex(&code)), json!({"bytes": hex(&code)})),
            }
            true
        });
    }
    fn coverage(&self, tier: Tier, total: &Ctx) -> Map<String, Value> {
        let n = alphabet().len();
        let mut m = mc_coverage(
            total,
            total.distinct_count("nontrivial").max(1),
            total.get("programs").max(1),
            total.get("with_jump_and_exact_cfg"),
            &format!(
                "all token sequences of length <= {} over {} control-flow tokens (JUMPDEST, constants, 6 halting instructions incl. \
                 SELFDESTRUCT/INVALID/unassigned, a PUSH2 holding JUMPDEST bytes, a PUSH32 with four data bytes (JUMPDEST and a store) that the end of the code cuts short, a sentinel store, JUMP x 10 target kinds, JUMPI x 3 \
                 condition kinds x 7 target kinds: labels, into push data, byte after a label, len, len+1, 2^32+label, 2^64+label, 2^255+label, \
                 computed constant). For each program the real VM's executed-offset set (restricted to instruction boundaries) is \
                 compared with a reference EVM control-flow exploration: always a subset of the over-approximated CFG; for loop-free \
                 programs equal to the exact reachable set on non-JUMPDEST offsets and on every JUMPDEST entered by falling into it or by a conditional jump (also with iteration and fork limit 1 when no \
                 JUMPDEST is the target of more than one conditional jump), in strict and in permissive error mode. Plus all sequences of length <= 4 (thorough 5) over 11 tokens with PC-relative jumps (JUMP / conditional JUMPI to PC plus or minus the distance to a label before or after the jump, and to the byte after the label; backward ones are loops checked against bounded unrolling). Plus 686 two-way dispatchers whose three blocks end in every combination of nothing, STOP, RETURN, REVERT, INVALID, SELFDESTRUCT, unassigned byte; and 2 048 loops whose conditional jump takes a target from \
                 the stack that advances by 1 or 2 on every iteration over tails of JUMPDEST / STOP / push data / INVALID bytes, checked \
                 against bounded-unrolling reference explorations. states = distinct programs with a jump whose \
                 exact reference CFG was validated against the implementation; transitions = programs executed",
                max_len(tier),
                n
            ),
            true,
        );
        m.insert("evaluations".into(), json!(total.get("programs")));
        m.insert("distinct_nontrivial".into(), json!(total.distinct_count("nontrivial")));
        m
    }
    fn assumptions(&self, _tier: Tier) -> Vec<String> {
        vec![
            "reference EVM (ref_evm.rs) is trusted; it knows nothing of the tool's data structures".into(),
            "a JUMPDEST is a don't-care in the 'reachable => executed' direction only where a JUMP lands on it (the tool steps past it by design); a JUMPDEST entered by falling into it or by a conditional jump must be executed".into(),
            "programs with loops are only checked against the over-approximated CFG (subset direction)".into(),
            "default limits (10 iterations, 50 forks) are never reached by loop-free programs of this size".into(),
        ]
    }
    fn replay(&self, replay: &Value) -> bool {
        let code = unhex(replay["case"]["bytes"].as_str().unwrap());
        println!("code: {}", hex(&code));
        let x = explore(&code, false, &Limits::default());
        println!("reference reachable offsets: {:?} (loops={}, capped={})", x.reachable, x.loops, x.capped);
        if let VmRun::Ran(o) = run_vm(&code, sle::vm::Config::default(), lazy()) {
            println!("implementation executed:     {:?}", o.executed);
        }
        let r = if replay["case"]["looping"] == true { check_looping(&code).map(|_| ()) } else { check_code(&code).map(|_| ()) };
        match r {
            Ok(_) => false,
            Err(v) => {
                println!("observed: {}: {}", v.key, v.what);
                true
            }
        }
    }
}
