//! Emits operator results over the boundary set so that a Python big-integer script can cross-check ref_u256.

use crate::u256::{binop, boundary_set, BINOPS, U};

pub fn run(_args: &[String]) -> i32 {
    let b = boundary_set(false);
    let mut out = String::new();
    for op in BINOPS {
        for x in &b {
            for y in &b {
                let r = binop(op, *x, *y).unwrap();
                out.push_str(&format!("{op} {} {} {}\n", x.hex_min(), y.hex_min(), r.hex_min()));
            }
        }
    }
    // ternary and unary
    let small: Vec<U> = b.iter().copied().step_by(3).collect();
    for x in &small {
        out.push_str(&format!("NOT {} 0 {}\n", x.hex_min(), x.not().hex_min()));
        out.push_str(&format!("ISZERO {} 0 {}\n", x.hex_min(), U::evm_iszero(*x).hex_min()));
        for y in &small {
            for n in &small {
                out.push_str(&format!(
                    "ADDMOD {} {} {} {}\n",
                    x.hex_min(),
                    y.hex_min(),
                    n.hex_min(),
                    U::evm_addmod(*x, *y, *n).hex_min()
                ));
                out.push_str(&format!(
                    "MULMOD {} {} {} {}\n",
                    x.hex_min(),
                    y.hex_min(),
                    n.hex_min(),
                    U::evm_mulmod(*x, *y, *n).hex_min()
                ));
            }
        }
    }
    print!("{out}");
    0
}
