//! C18 — symbolic values stay within the size limit and report their true size.

use crate::asm::{assemble, op, Tok};
use crate::infra::*;
use crate::obs::lazy;
use crate::prog::{run_seq_chunk, seq_chunks};
use crate::u256::U;
use crate::util::{hex, unhex};
use crate::vmrun::{run_vm, VmRun};
use serde_json::{json, Map, Value};
use std::collections::HashMap;
use storage_layout_extractor as sle;
use sle::tc::TypeChecker;
use sle::vm::value::{RuntimeBoxedVal, RSVD};

#[derive(Clone, Copy, Debug, PartialEq, Eq)]
enum Tk {
    CallValue,
    Cdl0,
    Dup1,
    Add,
    Mul,
    Sha3Top,
    Sload0,
    Sstore0,
    Mstore0,
    Mload0,
    L,
    Ji0,
    P1,
}

fn alphabet() -> Vec<Tk> {
    vec![
        Tk::CallValue,
        Tk::Cdl0,
        Tk::Dup1,
        Tk::Add,
        Tk::Mul,
        Tk::Sha3Top,
        Tk::Sload0,
        Tk::Sstore0,
        Tk::Mstore0,
        Tk::Mload0,
        Tk::L,
        Tk::Ji0,
        Tk::P1,
    ]
}

fn arity(t: Tk) -> (usize, usize) {
    match t {
        Tk::CallValue | Tk::Cdl0 | Tk::Sload0 | Tk::Mload0 | Tk::P1 => (0, 1),
        Tk::Dup1 => (1, 2),
        Tk::Add | Tk::Mul => (2, 1),
        Tk::Sha3Top => (1, 1),
        Tk::Sstore0 | Tk::Mstore0 => (1, 0),
        Tk::L | Tk::Ji0 => (0, 0),
    }
}

fn expand(seq: &[Tk]) -> Option<Vec<u8>> {
    let has_label = seq.iter().any(|t| *t == Tk::L);
    let mut t = Vec::new();
    let mut l = 0u8;
    for x in seq {
        match x {
            Tk::CallValue => t.push(Tok::Op(op::CALLVALUE)),
            Tk::Cdl0 => t.extend([Tok::Op(op::PUSH0), Tok::Op(op::CALLDATALOAD)]),
            Tk::Dup1 => t.push(Tok::Op(op::DUP1)),
            Tk::Add => t.push(Tok::Op(op::ADD)),
            Tk::Mul => t.push(Tok::Op(op::MUL)),
            Tk::Sha3Top => t.extend([
                Tok::Op(op::PUSH0),
                Tok::Op(op::MSTORE),
                Tok::Push(U::from_u64(0x20)),
                Tok::Op(op::PUSH0),
                Tok::Op(op::SHA3),
            ]),
            Tk::Sload0 => t.extend([Tok::Op(op::PUSH0), Tok::Op(op::SLOAD)]),
            Tk::Sstore0 => t.extend([Tok::Op(op::PUSH0), Tok::Op(op::SSTORE)]),
            Tk::Mstore0 => t.extend([Tok::Op(op::PUSH0), Tok::Op(op::MSTORE)]),
            Tk::Mload0 => t.extend([Tok::Op(op::PUSH0), Tok::Op(op::MLOAD)]),
            Tk::L => {
                t.push(Tok::Label(l));
                l += 1;
            }
            Tk::Ji0 => {
                if !has_label {
                    return None;
                }
                t.extend([Tok::Op(op::CALLVALUE), Tok::PushLabel(0, U::ZERO), Tok::Op(op::JUMPI)]);
            }
            Tk::P1 => t.push(Tok::Push(U::ONE)),
        }
    }
    Some(assemble(&t))
}

/// Keyed by node address; the node itself is kept alive in the entry so that addresses cannot be reused.
type Memo = HashMap<*const sle::vm::value::RSV, (usize, RuntimeBoxedVal)>;

/// Node count of a value; checks size() == node count on every sub-node on the way.
fn count_and_check(v: &RuntimeBoxedVal, memo: &mut Memo, bad: &mut Option<String>) -> usize {
    let p = std::sync::Arc::as_ptr(v);
    if let Some((n, _)) = memo.get(&p) {
        return *n;
    }
    let n = 1 + v.children().iter().map(|c| count_and_check(c, memo, bad)).sum::<usize>();
    if v.size() != n && bad.is_none() {
        *bad = Some(format!("a {} node reports size {} but contains {} nodes", top(v), v.size(), n));
    }
    memo.insert(p, (n, v.clone()));
    n
}

fn top(v: &RuntimeBoxedVal) -> String {
    let s = format!("{:?}", v.data());
    s.split(|c: char| !c.is_alphanumeric()).next().unwrap_or("").to_string()
}

pub struct Verdict {
    pub key: String,
    pub what: String,
}

pub struct Facts {
    pub culled: bool,
    pub max_nodes: usize,
}

pub fn check_code(code: &[u8], limit: usize, iterations: usize) -> Result<Option<Facts>, Verdict> {
    let cfg = sle::vm::Config::default()
        .with_value_size_limit(limit)
        .with_max_iterations_per_opcode(iterations)
        .with_permissive_errors(true);
    let out = match run_vm(code, cfg, lazy()) {
        VmRun::Ran(o) => o,
        _ => return Ok(None),
    };
    let r = guarded(move || -> Result<Option<Facts>, Verdict> {
        let mut memo: Memo = HashMap::new();
        let mut facts = Facts {
            culled: false,
            max_nodes: 0,
        };
        for st in out.vm.stored_states() {
            // instruction results: stack items, memory contents and offsets, storage keys and written values,
            // recorded and logged values
            let mut results: Vec<(&'static str, RuntimeBoxedVal)> = Vec::new();
            for d in 0..st.stack().depth() {
                if let Ok(v) = st.stack().read(d as u32) {
                    results.push(("stack", v.clone()));
                }
            }
            for v in st.memory().clone().all_values() {
                results.push(("memory", v));
            }
            for k in st.storage().keys() {
                results.push(("storage-key", k.clone()));
                if let Some(gens) = st.storage().generations(k) {
                    for g in gens {
                        if !matches!(g.data(), RSVD::UnwrittenStorageValue { .. }) {
                            results.push(("storage-value", g.clone()));
                        }
                    }
                }
            }
            for v in st.recorded_values() {
                results.push(("recorded", v.clone()));
            }
            for v in st.logged_values() {
                results.push(("logged", v.clone()));
            }
            for (place, v) in &results {
                let mut bad = None;
                let n = count_and_check(v, &mut memo, &mut bad);
                if let Some(b) = bad {
                    return Err(Verdict {
                        key: format!("size-mismatch:execution:{}", b.split_whitespace().nth(1).unwrap_or("")),
                        what: format!("{b} ({place} value after execution, limit {limit})"),
                    });
                }
                facts.max_nodes = facts.max_nodes.max(n);
                if matches!(v.data(), RSVD::Value { .. }) {
                    facts.culled = true;
                }
                if n > limit {
                    return Err(Verdict {
                        key: format!("over-limit:{}", top(v)),
                        what: format!("a {place} value produced by an instruction has {n} nodes with a size limit of {limit}: {v}"),
                    });
                }
            }
            // the exported view (what the type checker receives): sizes must be truthful there as well
            for v in st.clone().all_values() {
                let mut bad = None;
                count_and_check(&v, &mut memo, &mut bad);
                if let Some(b) = bad {
                    return Err(Verdict {
                        key: format!("size-mismatch:export:{}", b.split_whitespace().nth(1).unwrap_or("")),
                        what: format!("{b} (exported value, limit {limit})"),
                    });
                }
            }
        }
        // after lifting and after folding
        let result = out.vm.consume();
        let mut tc = TypeChecker::new(sle::tc::Config::default(), lazy());
        let lifted = match tc.lift(result) {
            Ok(l) => l,
            Err(_) => return Ok(Some(facts)),
        };
        for v in &lifted {
            let mut bad = None;
            count_and_check(v, &mut memo, &mut bad);
            if let Some(b) = bad {
                return Err(Verdict {
                    key: format!("size-mismatch:lift:{}", b.split_whitespace().nth(1).unwrap_or("")),
                    what: format!("{b} (after lifting, limit {limit})"),
                });
            }
            let folded = v.constant_fold();
            let mut bad = None;
            count_and_check(&folded, &mut memo, &mut bad);
            if let Some(b) = bad {
                return Err(Verdict {
                    key: format!("size-mismatch:fold:{}", b.split_whitespace().nth(1).unwrap_or("")),
                    what: format!("{b} (after constant folding, limit {limit})"),
                });
            }
        }
        Ok(Some(facts))
    });
    match r {
        Ok(x) => x,
        Err(_) => Ok(None), // a panic here is C01's business
    }
}

/// Every value-building opcode with every vector of operand shapes, so that every arm of the size bookkeeping (and of
/// the opcodes' constant / symbolic case splits) is exercised with operands that are not single nodes.
fn operand_position_programs() -> Vec<(String, Vec<u8>)> {
    let ops: Vec<(u8, usize)> = vec![
        (0x01, 2), (0x02, 2), (0x03, 2), (0x04, 2), (0x05, 2), (0x06, 2), (0x07, 2), (0x08, 3), (0x09, 3), (0x0a, 2), (0x0b, 2),
        (0x10, 2), (0x11, 2), (0x12, 2), (0x13, 2), (0x14, 2), (0x15, 1), (0x16, 2), (0x17, 2), (0x18, 2), (0x19, 1), (0x1a, 2),
        (0x1b, 2), (0x1c, 2), (0x1d, 2), (0x20, 2), (0x31, 1), (0x35, 1), (0x37, 3), (0x39, 3), (0x3b, 1), (0x3c, 4), (0x3e, 3),
        (0x3f, 1), (0x40, 1), (0x51, 1), (0x52, 2), (0x53, 2), (0x54, 1), (0x55, 2), (0xa0, 2), (0xa1, 3), (0xa2, 4), (0xa3, 5),
        (0xa4, 6), (0xf0, 3), (0xf1, 7), (0xf2, 7), (0xf3, 2), (0xf4, 6), (0xf5, 4), (0xfa, 6), (0xfd, 2), (0xff, 1), (0x57, 2),
    ];
    // every operand is, independently, a symbolic leaf, a constant, or a 3-node composite: 3^k shape vectors per opcode
    // (a constant size next to a composite offset takes different arms of the copy / return-data code than two leaves)
    let shapes: [Vec<u8>; 3] = [vec![op::CALLVALUE], vec![0x60, 0x40], vec![op::CALLVALUE, op::CALLVALUE, op::ADD]];
    let mut out = Vec::new();
    for (opc, k) in ops {
        let total = 3usize.pow(k as u32);
        for v in 0..total {
            let shape_of = |pos: usize| (v / 3usize.pow(pos as u32)) % 3;
            let mut code = Vec::new();
            for pos in (0..k).rev() {
                code.extend(&shapes[shape_of(pos)]);
            }
            code.push(opc);
            // read back what a memory-writing instruction stored, and keep the result in storage too
            code.extend([op::PUSH0, op::MLOAD, op::PUSH0, op::SSTORE]);
            let names: Vec<&str> = (0..k).map(|p| ["leaf", "const", "composite"][shape_of(p)]).collect();
            out.push((format!("opcode {opc:#04x} with operands (first popped first) {names:?}"), code));
        }
    }
    out
}

/// Freshness of the opaque stand-ins: programs in which, by construction, every stack position of a final state (and
/// the stack tops of two paths) holds a different quantity, so two opaque `Value` nodes there must never be one value.
fn freshness_programs() -> Vec<(String, Vec<u8>, bool)> {
    let mut v = Vec::new();
    for (name, opc) in [("MUL", 0x02u8), ("ADD", 0x01), ("EXP", 0x0a), ("XOR", 0x18)] {
        // CALLER; JUMPDEST; DUP1 DUP1 op; PUSH1 1; JUMP: the stack grows by one ever larger power per iteration
        v.push((format!("accumulating loop over {name}"), vec![0x33, 0x5b, 0x80, 0x80, opc, 0x60, 0x01, 0x56], false));
        // two paths reach one common block with different seeds: CALLDATASIZE PUSH1 8 JUMPI ORIGIN PUSH1 9 JUMP JUMPDEST(8) CALLER
        // JUMPDEST(10) DUP1 op DUP1 op STOP
        v.push((
            format!("two paths through one {name} block"),
            vec![0x36, 0x60, 0x08, 0x57, 0x32, 0x60, 0x0a, 0x56, 0x5b, 0x33, 0x5b, 0x80, opc, 0x80, opc, 0x00],
            true,
        ));
    }
    v
}

fn check_freshness(code: &[u8], limit: usize, two_paths: bool) -> Result<usize, Verdict> {
    let cfg = sle::vm::Config::default().with_value_size_limit(limit).with_max_iterations_per_opcode(6).with_permissive_errors(true);
    let out = match run_vm(code, cfg, lazy()) {
        VmRun::Ran(o) => o,
        _ => return Ok(0),
    };
    let id_of = |v: &RuntimeBoxedVal| -> Option<String> {
        match v.data() {
            RSVD::Value { id } => Some(format!("{id:?}")),
            _ => None,
        }
    };
    let mut opaque = 0;
    let mut tops: Vec<String> = Vec::new();
    for st in out.vm.stored_states() {
        let mut seen: HashMap<String, usize> = HashMap::new();
        for d in 0..st.stack().depth() {
            if let Ok(v) = st.stack().read(d as u32) {
                if let Some(id) = id_of(v) {
                    opaque += 1;
                    if let Some(prev) = seen.insert(id.clone(), d) {
                        return Err(Verdict {
                            key: "stand-in-not-fresh:same-state".into(),
                            what: format!("stack positions {prev} and {d} of one final state hold different quantities but the same opaque value {id} (limit {limit})"),
                        });
                    }
                    if d == 0 {
                        tops.push(id);
                    }
                }
            }
        }
    }
    if two_paths && tops.len() >= 2 && tops.iter().collect::<std::collections::BTreeSet<_>>().len() < tops.len() {
        return Err(Verdict {
            key: "stand-in-not-fresh:across-paths".into(),
            what: format!("two paths that computed different quantities end with the same opaque value on top of the stack: {tops:?} (limit {limit})"),
        });
    }
    Ok(opaque)
}

/// Culled only when it really exceeds the limit: `CALLDATASIZE (DUP1 op)^k`, stored to `words` consecutive memory words and
/// hashed over exactly those words. The expected node counts follow from the construction alone: a step yields
/// 1 + 2s nodes from s (an opaque single node when that exceeds the limit), the hashed slice 1 + words x s, the hash one more.
fn premature_programs() -> Vec<(String, Vec<u8>, usize, usize)> {
    let mut v = Vec::new();
    for (name, opc) in [("ADD", 0x01u8), ("MUL", 0x02)] {
        for k in 0..=8usize {
            for words in 1..=3usize {
                let mut code = vec![0x36u8];
                for _ in 0..k {
                    code.extend([0x80, opc]);
                }
                for w in 0..words {
                    code.extend([0x80, 0x60, (32 * w) as u8, 0x52]); // DUP1 PUSH1 off MSTORE
                }
                code.extend([0x50, 0x60, (32 * words) as u8, 0x5f, 0x20, 0x00]); // POP PUSH1 len PUSH0 SHA3 STOP
                v.push((format!("hash of {words} memory word(s) holding CALLDATASIZE doubled {k} times with {name}"), code, k, words));
            }
        }
    }
    v
}

fn check_premature(code: &[u8], k: usize, words: usize, limit: usize, mem_bytes: Option<usize>) -> Result<bool, Verdict> {
    let mut cfg = sle::vm::Config::default().with_value_size_limit(limit);
    if let Some(m) = mem_bytes {
        cfg = cfg.with_memory_max_bytes(m);
    }
    let out = match run_vm(code, cfg, lazy()) {
        VmRun::Ran(o) => o,
        _ => return Ok(false),
    };
    // expected sizes from the construction
    let mut s = 1usize;
    for _ in 0..k {
        s = if 1 + 2 * s > limit { 1 } else { 1 + 2 * s };
    }
    let hash = 2 + words * s;
    let expect_opaque = hash > limit;
    let Some(st) = out.vm.stored_states().first() else { return Ok(false) };
    let Ok(top_v) = st.stack().read(0) else { return Ok(false) };
    let is_opaque = matches!(top_v.data(), RSVD::Value { .. });
    if is_opaque && !expect_opaque {
        return Err(Verdict {
            key: "culled-below-the-limit".into(),
            what: format!("the hash has {hash} nodes, the limit is {limit}, yet it was replaced by an opaque value"),
        });
    }
    if !is_opaque {
        let mut memo = Memo::new();
        let mut bad = None;
        let n = count_and_check(top_v, &mut memo, &mut bad);
        if !expect_opaque && n != hash {
            return Err(Verdict {
                key: "culled-below-the-limit:inside".into(),
                what: format!("the hash should have {hash} nodes (limit {limit}) but has {n}: {}", top(top_v)),
            });
        }
    }
    Ok(expect_opaque)
}

pub struct C18;

fn limits(tier: Tier) -> Vec<usize> {
    if tier.thorough() {
        vec![1, 2, 3, 5, 8, 250]
    } else {
        vec![1, 2, 3, 5, 8]
    }
}

fn max_len(tier: Tier) -> usize {
    if tier.thorough() {
        6
    } else {
        5
    }
}

impl Check for C18 {
    fn id(&self) -> &'static str {
        "C18"
    }
    fn level(&self) -> &'static str {
        "exploration"
    }
    fn chunks(&self, _tier: Tier) -> usize {
        seq_chunks(alphabet().len()) + 2
    }
    fn run_chunk(&self, tier: Tier, chunk: usize, ctx: &mut Ctx) {
        let alpha = alphabet();
        let extra = seq_chunks(alpha.len());
        if chunk >= extra {
            let programs: Vec<(String, Vec<u8>)> = if chunk == extra {
                operand_position_programs()
            } else {
                // solc-idiom programs: the lifted node kinds (mapping / array index, sub-word, shifted, packed, slot)
                let mut v = Vec::new();
                for kind in crate::c04::basic_kinds().into_iter().chain(crate::c04::representative_kinds()) {
                    for (mi, mode) in [crate::idioms::Mode::Read, crate::idioms::Mode::Both, crate::idioms::Mode::WriteAll].into_iter().enumerate() {
                        let case = crate::c04::Case {
                            vars: vec![(
                                crate::idioms::Var {
                                    slot: U::from_u64(5),
                                    kind: kind.clone(),
                                },
                                mode,
                            )],
                            spelling: mi,
                        };
                        v.push((format!("idiom {kind:?} {mode:?}"), crate::c04::build(&case)));
                    }
                }
                v
            };
            if chunk == extra {
                for (desc, code, k, words) in premature_programs() {
                    for limit in [1usize, 2, 3, 7, 50, 128, 250, 300, 394, 395, 396, 397, 500, 511, 512, 513, 1000] {
                        for mem in [None, Some(96usize), Some(1_000_000)] {
                            ctx.case(|| json!({"bytes": hex(&code), "limit": limit, "iterations": 1, "premature": [k, words], "mem_bytes": mem}));
                            ctx.count("evaluations", 1);
                            ctx.count("culled_only_above_the_limit_runs", 1);
                            match check_premature(&code, k, words, limit, mem) {
                                Ok(culled) => {
                                    if !culled {
                                        ctx.distinct("nontrivial", crate::util::h64(&(&code, limit, mem, "premature")));
                                    }
                                }
                                Err(v) => ctx.violation(v.key, format!("{} [{desc} = {}; memory operation limit {mem:?}]", v.what, hex(&code)), json!({"bytes": hex(&code), "limit": limit, "iterations": 1, "premature": [k, words], "mem_bytes": mem})),
                            }
                        }
                    }
                }
                for (desc, code, two_paths) in freshness_programs() {
                    for limit in [1usize, 2, 3, 5, 8] {
                        ctx.case(|| json!({"bytes": hex(&code), "limit": limit, "iterations": 6, "freshness": true, "two_paths": two_paths}));
                        ctx.count("evaluations", 1);
                        ctx.count("freshness_runs", 1);
                        match check_freshness(&code, limit, two_paths) {
                            Ok(n) => {
                                if n > 0 {
                                    ctx.distinct("nontrivial", crate::util::h64(&(&code, limit, "fresh")));
                                }
                            }
                            Err(v) => ctx.violation(v.key, format!("{} [{desc} = {}]", v.what, hex(&code)), json!({"bytes": hex(&code), "limit": limit, "iterations": 6, "freshness": true, "two_paths": two_paths})),
                        }
                    }
                }
            }
            for (desc, code) in programs {
                for limit in [2usize, 4, 6, 250] {
                    ctx.case(|| json!({"bytes": hex(&code), "limit": limit, "iterations": 1}));
                    ctx.count("evaluations", 1);
                    ctx.count(if chunk == extra { "operand_position_runs" } else { "idiom_program_runs" }, 1);
                    match check_code(&code, limit, 1) {
                        Ok(Some(f)) => {
                            ctx.distinct("nontrivial", crate::util::h64(&(&code, limit, 1usize)));
                            let _ = f;
                        }
                        Ok(None) => ctx.count("skipped_other_property", 1),
                        Err(v) => ctx.violation(
                            v.key,
                            format!("{} [{desc} = {}]", v.what, hex(&code)),
                            json!({"bytes": hex(&code), "limit": limit, "iterations": 1}),
                        ),
                    }
                }
            }
            return;
        }
        run_seq_chunk(alpha.len(), max_len(tier), chunk, &mut |ix| {
            let seq: Vec<Tk> = ix.iter().map(|i| alpha[*i]).collect();
            let mut depth = 0usize;
            for t in &seq {
                let (pops, pushes) = arity(*t);
                if depth < pops {
                    return false;
                }
                depth = depth - pops + pushes;
            }
            let Some(code) = expand(&seq) else { return true };
            let loops = seq.iter().any(|t| *t == Tk::Ji0);
            for limit in limits(tier) {
                for iterations in if loops { vec![1usize, 3] } else { vec![1] } {
                    ctx.case(|| json!({"bytes": hex(&code), "limit": limit, "iterations": iterations}));
                    ctx.count("evaluations", 1);
                    match check_code(&code, limit, iterations) {
                        Ok(Some(f)) => {
                            if f.culled {
                                ctx.count("runs_with_a_culled_value", 1);
                                ctx.distinct("nontrivial", crate::util::h64(&(&code, limit, iterations)));
                                ctx.sample(|| json!({"tokens": format!("{seq:?}"), "bytes": hex(&code), "limit": limit, "largest_value_nodes": f.max_nodes, "verdict": "sizes truthful, results within the limit"}));
                            }
                        }
                        Ok(None) => ctx.count("skipped_other_property", 1),
                        Err(v) => ctx.violation(
                            v.key,
                            format!("{} [{seq:?} = {}]", v.what, hex(&code)),
                            json!({"bytes": hex(&code), "limit": limit, "iterations": iterations}),
                        ),
                    }
                }
            }
            true
        });
    }
    fn coverage(&self, tier: Tier, total: &Ctx) -> Map<String, Value> {
        let rule = format!(
            "all stack-safe token sequences <= {} over 13 value-growing tokens (CALLVALUE, CALLDATALOAD, DUP1, ADD, MUL, hash of the \
             top of stack, SLOAD/SSTORE of slot 0, MSTORE/MLOAD at 0, JUMPDEST, conditional jump back to the first JUMPDEST, PUSH 1) x \
             value size limits {:?} x iteration limits {{1, 3}} for looping programs; every value-building opcode (55) with every vector of operand shapes \
             {{symbolic leaf, constant, 3-node composite}}^arity, and 219 solc-idiom programs (all lifted node kinds), under \
             limits 2, 4, 6, 250. For every stored state: every stack item, memory \
             content/offset, storage key/written value, recorded and logged value has <= limit nodes, and every node of every value \
             (also of the exported view, after lifting, and after constant folding) reports size() = its recursive node count. \
             Culled only above the limit: CALLDATASIZE doubled 0..8 times with ADD / MUL, stored to 1..3 memory words and hashed, under 17 size limits (1 .. 1000, around 250, 394 and 512) x 3 single-memory-operation limits: the hash is an opaque value exactly when its node count (known from the construction) exceeds the limit, and has exactly that node count otherwise. Freshness: in accumulating loops and two-path programs over MUL / ADD / EXP / XOR (every stack position holds a different quantity) no two opaque stand-ins of a final state, and no two path tops, are the same value. \
             non-trivial = a run in which some value was actually culled; distinct by (program, limit, iterations)",
            max_len(tier),
            limits(tier)
        );
        exploration_coverage(total, total.get("evaluations"), total.distinct_count("nontrivial"), &rule, true)
    }
    fn assumptions(&self, _tier: Tier) -> Vec<String> {
        vec![
            "synthetic wrappers added when storage is exported (StorageWrite around key and value) are not instruction results and are only checked for truthful sizes".into(),
            "size limits above 8 only in the thorough tier (250); the quantifier's 1000 is not reached".into(),
        ]
    }
    fn replay(&self, replay: &Value) -> bool {
        let c = &replay["case"];
        let code = unhex(c["bytes"].as_str().unwrap());
        let limit = c["limit"].as_u64().unwrap() as usize;
        let iterations = c["iterations"].as_u64().unwrap() as usize;
        println!("code: {} limit={limit} iterations={iterations}", hex(&code));
        if c.get("premature").map(|p| p.is_array()).unwrap_or(false) {
            let k = c["premature"][0].as_u64().unwrap() as usize;
            let words = c["premature"][1].as_u64().unwrap() as usize;
            return match check_premature(&code, k, words, limit, c["mem_bytes"].as_u64().map(|m| m as usize)) {
                Ok(_) => {
                    println!("observed: culled exactly when the limit is exceeded");
                    false
                }
                Err(v) => {
                    println!("observed: {}: {}", v.key, v.what);
                    true
                }
            };
        }
        if c["freshness"] == true {
            return match check_freshness(&code, limit, c["two_paths"] == true) {
                Ok(n) => {
                    println!("observed: {n} opaque stand-ins, all distinct");
                    false
                }
                Err(v) => {
                    println!("observed: {}: {}", v.key, v.what);
                    true
                }
            };
        }
        match check_code(&code, limit, iterations) {
            Ok(_) => {
                println!("observed: sizes truthful and within the limit");
                false
            }
            Err(v) => {
                println!("observed: {}: {}", v.key, v.what);
                true
            }
        }
    }
}
