//! Pipeline templates with constant holes: short solc-shaped programs that reach the lifting passes, the
//! inference rules and unification, with boundary constants in the positions of shifts, masks, offsets, sizes,
//! projections and slot arithmetic. Shared by C01 (totality) and C12 (entries inside the slot).

use crate::asm::{arrkey, assemble, mapkey_from_stack, o, op, p, pu, Tok};
use crate::u256::U;

pub const TEMPLATES: usize = 16;

pub fn template_name(t: usize) -> &'static str {
    [
        "(sload(0) >> c1) & c2 -> sstore(1)",
        "(sload(0) / c1) & c2 -> sstore(1)",
        "sstore(0, (sload(0) & ~c2) | ((callvalue * c1) & c2))",
        "sstore(0, (sload(0) & ~c2) | ((callvalue & c2) << c1))",
        "sload(keccak(caller . 3) + c1); sstore(keccak(caller . 3) + c2, callvalue)",
        "sload(keccak(3) + c1); sstore(keccak(3) + c2, callvalue)",
        "mstore(c1, callvalue); sload(keccak(mem[c1 .. c1 + c2]))",
        "sstore(1, ((sload(0) << c1) | callvalue) & c2)",
        "sstore(1, signextend(c1, sload(0)) + byte(c2, sload(0)))",
        "sstore(1, (sload(0) ** c1) >> c2)",
        "sstore(0, ((callvalue & c1) * c2) | (sload(0) & c1))",
        "sload(c1) & c2 -> sstore(c1)",
        "sstore(1, sar(c1, sload(0)) & c2)",
        "return(c1, c2) after mstore(0, sload(0))",
        "log1(c1, c2, topic) ; revert(c2, c1)",
        "sstore(c1 + keccak(caller . c2), callvalue & c2)",
    ][t]
}

pub fn template(t: usize, c1: U, c2: U) -> Vec<u8> {
    let sload0 = || vec![p(0), o(op::SLOAD)];
    let mut v: Vec<Tok> = Vec::new();
    match t {
        0 => {
            v.extend(sload0());
            v.extend([pu(c1), o(op::SHR), pu(c2), o(op::AND), p(1), o(op::SSTORE)]);
        }
        1 => {
            // solc (pre-shift-opcodes): and(div(sload(0), c1), c2)
            v.push(pu(c1));
            v.extend(sload0());
            v.extend([o(op::DIV), pu(c2), o(op::AND), p(1), o(op::SSTORE)]);
        }
        2 => {
            // or(and(sload(0), not(c2)), and(mul(callvalue, c1), c2))
            v.extend([o(op::CALLVALUE), pu(c1), o(op::MUL), pu(c2), o(op::AND)]);
            v.extend([pu(c2), o(op::NOT)]);
            v.extend(sload0());
            v.extend([o(op::AND), o(op::OR), p(0), o(op::SSTORE)]);
        }
        3 => {
            v.extend([o(op::CALLVALUE), pu(c2), o(op::AND), pu(c1), o(op::SHL)]);
            v.extend([pu(c2), o(op::NOT)]);
            v.extend(sload0());
            v.extend([o(op::AND), o(op::OR), p(0), o(op::SSTORE)]);
        }
        4 => {
            v.push(o(op::CALLER));
            v.extend(mapkey_from_stack(U::from_u64(3)));
            v.extend([pu(c1), o(op::ADD), o(op::SLOAD), o(op::POP)]);
            v.push(o(op::CALLVALUE));
            v.push(o(op::CALLER));
            v.extend(mapkey_from_stack(U::from_u64(3)));
            v.extend([pu(c2), o(op::ADD), o(op::SSTORE)]);
        }
        5 => {
            v.extend(arrkey(U::from_u64(3)));
            v.extend([pu(c1), o(op::ADD), o(op::SLOAD), o(op::POP)]);
            v.push(o(op::CALLVALUE));
            v.extend(arrkey(U::from_u64(3)));
            v.extend([pu(c2), o(op::ADD), o(op::SSTORE)]);
        }
        6 => {
            v.extend([o(op::CALLVALUE), pu(c1), o(op::MSTORE), pu(c2), pu(c1), o(op::SHA3), o(op::SLOAD), p(1), o(op::SSTORE)]);
        }
        7 => {
            v.push(o(op::CALLVALUE));
            v.extend(sload0());
            v.extend([pu(c1), o(op::SHL), o(op::OR), pu(c2), o(op::AND), p(1), o(op::SSTORE)]);
        }
        8 => {
            v.extend(sload0());
            v.extend([pu(c2), o(op::BYTE)]);
            v.extend(sload0());
            v.extend([pu(c1), o(op::SIGNEXTEND), o(op::ADD), p(1), o(op::SSTORE)]);
        }
        9 => {
            v.push(pu(c1));
            v.extend(sload0());
            v.extend([o(op::EXP), pu(c2), o(op::SHR), p(1), o(op::SSTORE)]);
        }
        10 => {
            v.extend(sload0());
            v.extend([pu(c1), o(op::AND)]);
            v.extend([o(op::CALLVALUE), pu(c1), o(op::AND), pu(c2), o(op::MUL), o(op::OR), p(0), o(op::SSTORE)]);
        }
        11 => {
            v.extend([pu(c1), o(op::SLOAD), pu(c2), o(op::AND), pu(c1), o(op::SSTORE)]);
        }
        12 => {
            v.extend(sload0());
            v.extend([pu(c1), o(op::SAR), pu(c2), o(op::AND), p(1), o(op::SSTORE)]);
        }
        13 => {
            v.extend(sload0());
            v.extend([p(0), o(op::MSTORE), pu(c2), pu(c1), o(op::RETURN)]);
        }
        14 => {
            v.extend([o(op::CALLER), pu(c2), pu(c1), o(op::LOG1), pu(c1), pu(c2), o(op::REVERT)]);
        }
        _ => {
            v.extend([o(op::CALLVALUE), pu(c2), o(op::AND)]);
            v.push(o(op::CALLER));
            v.extend(mapkey_from_stack(c2));
            v.extend([pu(c1), o(op::ADD), o(op::SSTORE)]);
        }
    }
    assemble(&v)
}
