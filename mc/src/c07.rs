//! C07 — every explored path computes what a concrete EVM computes on that path (translation validation per
//! path against the reference EVM).

use crate::asm::{assemble, op, pushn_bytes, Tok};
use crate::infra::*;
use crate::obs::lazy;
use crate::prog::{run_seq_chunk, seq_chunks};
use crate::ref_evm::{explore, opname, Exploration, Halt, Limits, PathResult, V};
use crate::u256::{binop, boundary_set, U};
use crate::util::{from_kw, hex, kw, unhex};
use crate::vmrun::{run_vm, VmRun};
use serde_json::{json, Map, Value};
use std::collections::{BTreeMap, BTreeSet};
use storage_layout_extractor as sle;
use sle::vm::state::VMState;
use sle::vm::value::{Provenance, RuntimeBoxedVal, RSV, RSVD};

/// Independent evaluator of the tool's expression trees under the environment "storage initially zero,
/// memory initially zero". None = not a closed arithmetic term.
pub fn eval(v: &RuntimeBoxedVal) -> Option<U> {
    let b = |name: &str, a: &RuntimeBoxedVal, c: &RuntimeBoxedVal| -> Option<U> { binop(name, eval(a)?, eval(c)?) };
    Some(match v.data() {
        RSVD::KnownData { value } => from_kw(value),
        RSVD::Add { left, right } => b("ADD", left, right)?,
        RSVD::Multiply { left, right } => b("MUL", left, right)?,
        RSVD::Subtract { left, right } => b("SUB", left, right)?,
        RSVD::Divide { dividend, divisor } => b("DIV", dividend, divisor)?,
        RSVD::SignedDivide { dividend, divisor } => b("SDIV", dividend, divisor)?,
        RSVD::Modulo { dividend, divisor } => b("MOD", dividend, divisor)?,
        RSVD::SignedModulo { dividend, divisor } => b("SMOD", dividend, divisor)?,
        RSVD::Exp { value, exponent } => b("EXP", value, exponent)?,
        RSVD::SignExtend { size, value } => b("SIGNEXTEND", size, value)?,
        RSVD::LessThan { left, right } => b("LT", left, right)?,
        RSVD::GreaterThan { left, right } => b("GT", left, right)?,
        RSVD::SignedLessThan { left, right } => b("SLT", left, right)?,
        RSVD::SignedGreaterThan { left, right } => b("SGT", left, right)?,
        RSVD::Equals { left, right } => b("EQ", left, right)?,
        RSVD::IsZero { number } => U::evm_iszero(eval(number)?),
        RSVD::And { left, right } => b("AND", left, right)?,
        RSVD::Or { left, right } => b("OR", left, right)?,
        RSVD::Xor { left, right } => b("XOR", left, right)?,
        RSVD::Not { value } => eval(value)?.not(),
        RSVD::LeftShift { shift, value } => b("SHL", shift, value)?,
        RSVD::RightShift { shift, value } => b("SHR", shift, value)?,
        RSVD::ArithmeticRightShift { shift, value } => b("SAR", shift, value)?,
        RSVD::SLoad { value, .. } => eval(value)?,
        RSVD::UnwrittenStorageValue { .. } => U::ZERO,
        _ => return None,
    })
}

#[derive(Clone, Debug, PartialEq, Eq, PartialOrd, Ord)]
pub struct Sig {
    pub stack: Vec<Option<U>>,
    pub memory: Vec<(u64, Option<U>)>,
    /// per key (evaluated), the ordered list of written values
    pub writes: Vec<(Option<U>, Vec<Option<U>>)>,
}

fn c(v: &V) -> Option<U> {
    match v {
        V::C(u) => Some(*u),
        V::Unk(_) => None,
    }
}

pub fn ref_sig(p: &PathResult, offsets: &BTreeSet<u64>) -> Sig {
    let mut per_key: BTreeMap<Option<U>, Vec<Option<U>>> = BTreeMap::new();
    for (k, v) in &p.writes {
        per_key.entry(c(k)).or_default().push(c(v));
    }
    Sig {
        stack: p.stack.iter().map(c).collect(),
        memory: offsets
            .iter()
            .map(|o| (*o, p.memory.get(o).map(c).unwrap_or(Some(U::ZERO))))
            .collect(),
        writes: per_key.into_iter().collect(),
    }
}

pub fn impl_sig(st: &VMState, offsets: &BTreeSet<u64>) -> Sig {
    let mut st = st.clone();
    let stack: Vec<Option<U>> = {
        let depth = st.stack().depth();
        // read(0) is the top; the reference lists bottom first
        (0..depth)
            .rev()
            .map(|d| st.stack().read(d as u32).ok().and_then(eval))
            .collect()
    };
    let memory = offsets
        .iter()
        .map(|o| {
            let off = RSV::new_known_value(0, kw(U::from_u64(*o)), Provenance::Synthetic, None);
            (*o, eval(&st.memory_mut().load(&off)))
        })
        .collect();
    let mut per_key: BTreeMap<Option<U>, Vec<Option<U>>> = BTreeMap::new();
    let keys: Vec<RuntimeBoxedVal> = st.storage().keys().into_iter().cloned().collect();
    for k in keys {
        let gens: Vec<RuntimeBoxedVal> = st
            .storage()
            .generations(&k)
            .map(|g| g.into_iter().cloned().collect())
            .unwrap_or_default();
        let written: Vec<Option<U>> = gens
            .iter()
            .filter(|g| !matches!(g.data(), RSVD::UnwrittenStorageValue { .. }))
            .map(eval)
            .collect();
        if !written.is_empty() {
            per_key.entry(eval(&k)).or_default().extend(written);
        }
    }
    Sig {
        stack,
        memory,
        writes: per_key.into_iter().collect(),
    }
}

pub struct Verdict {
    pub key: String,
    pub what: String,
}

fn usable(x: &Exploration) -> bool {
    !x.capped
        && !x.loops
        && x.events.is_empty()
        && x.paths.iter().all(|p| {
            !p.memory_tainted
                && matches!(p.halt, Halt::Stop | Halt::EndOfCode | Halt::Return | Halt::Revert | Halt::Invalid | Halt::SelfDestruct)
                && p.stack.iter().all(|v| matches!(v, V::C(_)))
        })
}

fn all_offsets(x: &Exploration) -> BTreeSet<u64> {
    x.paths.iter().flat_map(|p| p.memory.keys().copied()).collect()
}

/// Ok(None) = outside the domain (not stack-safe, loops, unknown values); Ok(Some(paths)) = validated.
pub fn check_code(code: &[u8]) -> Result<Option<usize>, Verdict> {
    let x = explore(code, true, &Limits::default());
    if !usable(&x) {
        return Ok(None);
    }
    let out = match run_vm(code, sle::vm::Config::default(), lazy()) {
        VmRun::Ran(o) => o,
        _ => return Ok(None),
    };
    let offsets = all_offsets(&x);
    let mut want: Vec<Sig> = x.paths.iter().map(|p| ref_sig(p, &offsets)).collect();
    let got_r = guarded(|| out.vm.stored_states().iter().map(|s| impl_sig(s, &offsets)).collect::<Vec<Sig>>());
    let mut got = match got_r {
        Ok(g) => g,
        Err(_) => return Ok(None),
    };
    want.sort();
    got.sort();
    if want.len() != got.len() {
        return Err(Verdict {
            key: "path-count".into(),
            what: format!("the EVM has {} paths, the tool stored {} final states", want.len(), got.len()),
        });
    }
    if want != got {
        let i = (0..want.len()).find(|i| want[*i] != got[*i]).unwrap();
        let (w, g) = (&want[i], &got[i]);
        let facet = if w.stack != g.stack {
            "stack"
        } else if w.memory != g.memory {
            "memory"
        } else {
            "storage-history"
        };
        return Err(Verdict {
            key: format!("{facet}:{}", culprit(code)),
            what: format!("final {facet} differs on some path: reference {w:?}, tool {g:?}"),
        });
    }
    Ok(Some(want.len()))
}

/// For straight-line code: the first instruction after which the evaluated stacks differ, with an operand class
/// for the operators whose exact result the tool's value language cannot express.
fn culprit(code: &[u8]) -> String {
    let kinds = crate::c10::ref_kinds(code);
    if code.iter().zip(&kinds).any(|(b, k)| *k && (*b == 0x56 || *b == 0x57)) {
        return "branching".into();
    }
    let mut end = 0;
    while end < code.len() {
        let b = code[end];
        let next = if (0x60..=0x7f).contains(&b) { end + 1 + (b - 0x5f) as usize } else { end + 1 };
        let next = next.min(code.len());
        // the prefix is padded with STOPs to the original length so that CODESIZE keeps its value
        let mut padded = code[..next].to_vec();
        padded.resize(code.len(), 0x00);
        let prefix = &padded[..];
        let x = explore(prefix, true, &Limits::default());
        if let (true, VmRun::Ran(o)) = (usable(&x) && x.paths.len() == 1, run_vm(prefix, sle::vm::Config::default(), lazy())) {
            let offs = all_offsets(&x);
            let w = ref_sig(&x.paths[0], &offs);
            let g = o.vm.stored_states().first().map(|s| impl_sig(s, &offs));
            if Some(&w) != g.as_ref() {
                let name = opname(b)
                    .map(|s| s.to_string())
                    .unwrap_or_else(|| match b {
                        0x08 => "ADDMOD".into(),
                        0x09 => "MULMOD".into(),
                        0x15 => "ISZERO".into(),
                        0x19 => "NOT".into(),
                        0x5f..=0x7f => "PUSH".into(),
                        0x80..=0x8f => "DUP".into(),
                        0x90..=0x9f => "SWAP".into(),
                        0x51 => "MLOAD".into(),
                        0x52 => "MSTORE".into(),
                        0x54 => "SLOAD".into(),
                        0x55 => "SSTORE".into(),
                        x => format!("op{x:02x}"),
                    });
                // operand class from the reference stack just before this instruction
                let mut before_code = code[..end].to_vec();
                before_code.resize(code.len(), 0x00);
                let before = explore(&before_code, true, &Limits::default());
                let stack: Vec<U> = before
                    .paths
                    .first()
                    .map(|p| p.stack.iter().rev().filter_map(c).collect())
                    .unwrap_or_default();
                let class = match (b, stack.as_slice()) {
                    (0x08, [a, bb, ..]) if a.add_carry(*bb).1 => ":intermediate>=2^256",
                    (0x09, [a, bb, ..]) if a.mul_wide(*bb)[4..].iter().any(|l| *l != 0) => ":intermediate>=2^256",
                    (0x1a, [i, ..]) if i.bits() > 253 => ":index>=2^253",
                    _ => "",
                };
                return format!("{name}{class}");
            }
        }
        end = next;
    }
    "unknown".into()
}

// ---------------------------------------------------------------------------------------------------------
// program families

fn alu_ops() -> Vec<u8> {
    vec![
        0x01, 0x02, 0x03, 0x04, 0x05, 0x06, 0x07, 0x08, 0x09, 0x0a, 0x0b, 0x10, 0x11, 0x12, 0x13, 0x14, 0x15, 0x16, 0x17,
        0x18, 0x19, 0x1a, 0x1b, 0x1c, 0x1d,
    ]
}

fn small_consts() -> Vec<U> {
    vec![
        U::ZERO,
        U::ONE,
        U::from_u64(2),
        U::from_u64(31),
        U::from_u64(255),
        U::from_u64(256),
        U::min_signed(),
        U::MAX,
    ]
}

/// Family (a): straight-line tokens.
fn straight_alphabet() -> Vec<Vec<u8>> {
    let mut v: Vec<Vec<u8>> = small_consts().iter().map(|c| crate::asm::push_bytes(*c)).collect();
    for o in alu_ops() {
        v.push(vec![o]);
    }
    for o in [op::POP, op::DUP1, op::SWAP1, op::PC, op::CODESIZE] {
        v.push(vec![o]);
    }
    v
}

/// Family (d): memory / storage tokens.
fn memsto_alphabet() -> Vec<Vec<u8>> {
    let mut v = Vec::new();
    let pb = |x: U| crate::asm::push_bytes(x);
    for o in [0u64, 0x20, 0x40] {
        for val in [7u64, 9] {
            let mut t = pb(U::from_u64(val));
            t.extend(pb(U::from_u64(o)));
            t.push(op::MSTORE);
            v.push(t);
        }
        let mut t = pb(U::from_u64(o));
        t.push(op::MLOAD);
        v.push(t);
    }
    for k in [U::ZERO, U::ONE, U::pow2(200)] {
        for val in [3u64, 5] {
            let mut t = pb(U::from_u64(val));
            t.extend(pb(k));
            t.push(op::SSTORE);
            v.push(t);
        }
        let mut t = pb(k);
        t.push(op::SLOAD);
        v.push(t);
    }
    // the same slot 1 named by a computed key (0 + 1): store, and load
    let computed_key = || {
        let mut t = pb(U::ZERO);
        t.extend(pb(U::ONE));
        t.push(op::ADD);
        t
    };
    let mut t = pb(U::from_u64(3));
    t.extend(computed_key());
    t.push(op::SSTORE);
    v.push(t);
    let mut t = computed_key();
    t.push(op::SLOAD);
    v.push(t);
    v
}

/// Family (e): branching tokens.
#[derive(Clone, Copy, Debug)]
enum Bt {
    L,
    Ji(bool, u8),
    Store(u8, u8),
    P1,
    Pop,
    Stop,
}
fn branch_alphabet() -> Vec<Bt> {
    let mut v = vec![Bt::L, Bt::P1, Bt::Pop, Bt::Stop];
    for l in 0..3 {
        v.push(Bt::Ji(true, l));
        v.push(Bt::Ji(false, l));
    }
    for k in 0..2 {
        for val in 1..3 {
            v.push(Bt::Store(k, val));
        }
    }
    v
}
fn expand_branch(seq: &[Bt]) -> Option<Vec<u8>> {
    let labels = seq.iter().filter(|t| matches!(t, Bt::L)).count();
    let mut toks = Vec::new();
    let mut l = 0u8;
    for t in seq {
        match t {
            Bt::L => {
                toks.push(Tok::Label(l));
                l += 1;
            }
            Bt::Ji(one, k) => {
                if *k as usize >= labels {
                    return None;
                }
                toks.push(if *one { Tok::Push(U::ONE) } else { Tok::Op(op::PUSH0) });
                toks.push(Tok::PushLabel(*k, U::ZERO));
                toks.push(Tok::Op(op::JUMPI));
            }
            Bt::Store(k, v) => {
                toks.push(Tok::Push(U::from_u64(*v as u64)));
                toks.push(Tok::Push(U::from_u64(*k as u64)));
                toks.push(Tok::Op(op::SSTORE));
            }
            Bt::P1 => toks.push(Tok::Push(U::ONE)),
            Bt::Pop => toks.push(Tok::Op(op::POP)),
            Bt::Stop => toks.push(Tok::Op(op::STOP)),
        }
    }
    Some(assemble(&toks))
}

#[derive(Clone, Debug)]
enum Chunk {
    SingleOps(usize),
    DupSwapPush,
    Straight(usize),
    MemSto(usize),
    Branch(usize),
    /// programs of boundary lengths (the length of the code is an operand of CODESIZE, PC and of every jump target)
    Long,
}

fn long_programs() -> Vec<Vec<u8>> {
    let mut out = Vec::new();
    for len in [255usize, 256, 257, 24_575, 24_576, 24_577, 30_000, 49_152, 65_535, 65_536, 65_537, 70_000] {
        // CODESIZE and PC stored, rest STOP padding
        let mut a = vec![0x38, 0x5f, 0x55, 0x58, 0x60, 0x01, 0x55, 0x00];
        a.resize(len, 0x00);
        out.push(a);
        // an unconditional jump to a block at the very end of the code: JUMPDEST PC CODESIZE STOP
        let t = len - 4;
        let mut b = vec![0x62, (t >> 16) as u8, (t >> 8) as u8, t as u8, 0x56];
        b.resize(len, 0x00);
        b[t..].copy_from_slice(&[0x5b, 0x58, 0x38, 0x00]);
        out.push(b);
        // both sides of a branch: CODESIZE on the fall-through path, CODESIZE stored at the far end on the taken path
        let t = len - 5;
        let mut c = vec![0x34, 0x62, (t >> 16) as u8, (t >> 8) as u8, t as u8, 0x57, 0x38, 0x60, 0x01, 0x01, 0x00];
        c.resize(len, 0x00);
        c[t..].copy_from_slice(&[0x5b, 0x38, 0x5f, 0x55, 0x00]);
        out.push(c);
    }
    out
}

fn plan(_tier: Tier) -> Vec<Chunk> {
    let mut v = vec![Chunk::DupSwapPush];
    for i in 0..alu_ops().len() {
        v.push(Chunk::SingleOps(i));
    }
    for c in 0..seq_chunks(straight_alphabet().len()) {
        v.push(Chunk::Straight(c));
    }
    for c in 0..seq_chunks(memsto_alphabet().len()) {
        v.push(Chunk::MemSto(c));
    }
    for c in 0..seq_chunks(branch_alphabet().len()) {
        v.push(Chunk::Branch(c));
    }
    v.push(Chunk::Long);
    v
}

/// Memory far from the start: a word stored and loaded again at every word-aligned boundary offset a block's gas can pay
/// for (up to 123 170 words), alone, after a store at offset 0, and on one side of a branch; MSTORE8 too.
fn far_memory_programs() -> Vec<Vec<u8>> {
    let pb = |x: u64| crate::asm::push_bytes(U::from_u64(x));
    let mut v = Vec::new();
    let offsets: [u64; 16] = [0x60, 0x80, 0x1000, 0xffe0, 0x1_0000, 0x1_e100, 0x1_e120, 0x1_e140, 0x1_e160, 0x2_0000, 0x10_0000, 0x20_0000, 0x3c_23a0, 0x3c_23c0, 0x3c_23e0, 0x3c_2400];
    for off in offsets {
        for store in [op::MSTORE, 0x53u8] {
            // PUSH 42 PUSH off MSTORE PUSH off MLOAD PUSH 1 SSTORE PUSH 7 STOP
            let mut body = pb(42);
            body.extend(pb(off));
            body.push(store);
            body.extend(pb(off));
            body.push(op::MLOAD);
            body.extend(pb(1));
            body.push(op::SSTORE);
            body.extend(pb(7));
            let mut alone = body.clone();
            alone.push(op::STOP);
            v.push(alone);
            // after a store at offset 0
            let mut after = pb(9);
            after.extend(pb(0));
            after.push(op::MSTORE);
            after.extend(body.iter());
            after.push(op::STOP);
            v.push(after);
            // on the fall-through side of a branch: CALLVALUE PUSH2 dest JUMPI body STOP JUMPDEST PUSH 5 PUSH 2 SSTORE STOP
            let dest = 1 + 3 + 1 + body.len() + 1;
            let mut br = vec![op::CALLVALUE, 0x61, (dest >> 8) as u8, dest as u8, op::JUMPI];
            br.extend(body.iter());
            br.push(op::STOP);
            br.push(0x5b);
            br.extend(pb(5));
            br.extend(pb(2));
            br.push(op::SSTORE);
            br.push(op::STOP);
            v.push(br);
        }
    }
    v
}

fn run_code(ctx: &mut Ctx, family: &str, code: &[u8]) -> bool {
    ctx.case(|| json!({"bytes": hex(code)}));
    ctx.count("programs", 1);
    ctx.count(family, 1);
    match check_code(code) {
        Ok(Some(paths)) => {
            ctx.count("validated_programs", 1);
            ctx.count("validated_paths", paths as u64);
            ctx.distinct("nontrivial", crate::util::h64(code));
            if paths > 1 {
                ctx.count("multi_path_programs", 1);
                ctx.sample(|| json!({"bytes": hex(code), "paths": paths, "verdict": "every path's stack/memory/storage history equals the reference"}));
            }
            true
        }
        Ok(None) => {
            ctx.count("outside_domain", 1);
            false
        }
        Err(v) => {
            // slot 1 named by a computed key (0 + 1): whether the same slot is also named by the literal 1 decides which
            // defect this is (the recorded one needs both spellings in one program)
            let computed = code.windows(5).any(|w| w == [0x5f, 0x60, 0x01, 0x01, 0x55] || w == [0x5f, 0x60, 0x01, 0x01, 0x54]);
            let literal = code.windows(3).enumerate().any(|(i, w)| (w == [0x60, 0x01, 0x55] || w == [0x60, 0x01, 0x54]) && (i == 0 || code[i - 1] != 0x5f));
            let facet = v.key.split(':').next().unwrap_or("").to_string();
            let key = if computed && family == "memory_storage" {
                format!("computed-storage-key:{}:{facet}", if literal { "mixed-with-the-literal-key" } else { "on-its-own" })
            } else {
                v.key
            };
            ctx.violation(key, format!("{} [{}]", v.what, hex(code)), json!({"bytes": hex(code)}));
            true
        }
    }
}

pub struct C07;

impl Check for C07 {
    fn id(&self) -> &'static str {
        "C07"
    }
    fn level(&self) -> &'static str {
        "model_checking"
    }
    fn chunks(&self, tier: Tier) -> usize {
        plan(tier).len()
    }
    fn run_chunk(&self, tier: Tier, chunk: usize, ctx: &mut Ctx) {
        match plan(tier)[chunk].clone() {
            Chunk::SingleOps(i) => {
                let o = alu_ops()[i];
                let b = boundary_set(tier.thorough());
                let ternary = o == 0x08 || o == 0x09;
                let unary = o == 0x15 || o == 0x19;
                let third: Vec<U> = if ternary {
                    vec![U::ZERO, U::ONE, U::from_u64(3), U::pow2(128), U::MAX]
                } else {
                    vec![U::ZERO]
                };
                let bb: Vec<U> = if ternary && tier.thorough() { b.iter().copied().step_by(5).collect() } else { b.clone() };
                for x in &bb {
                    let ys: Vec<U> = if unary { vec![U::ZERO] } else { bb.clone() };
                    for y in &ys {
                        for n in &third {
                            let mut code = Vec::new();
                            if ternary {
                                code.extend(pushn_bytes(32, *n));
                            }
                            if !unary {
                                code.extend(pushn_bytes(32, *y));
                            }
                            code.extend(pushn_bytes(32, *x));
                            code.push(o);
                            run_code(ctx, "single_operator", &code);
                        }
                    }
                }
            }
            Chunk::DupSwapPush => {
                for n in 1..=16u8 {
                    for depth in n..=17 {
                        let mut code = Vec::new();
                        for i in 0..depth {
                            code.extend(pushn_bytes(1, U::from_u64(0x10 + i as u64)));
                        }
                        let mut d = code.clone();
                        d.push(0x7f + n);
                        run_code(ctx, "dup_swap", &d);
                        if depth > n {
                            let mut s = code.clone();
                            s.push(0x8f + n);
                            run_code(ctx, "dup_swap", &s);
                        }
                    }
                }
                for width in 0..=32u8 {
                    for pat in 0..4 {
                        let v = match pat {
                            0 => U::ZERO,
                            1 => U::MAX,
                            2 => U::from_be_slice(&(1..=32u8).collect::<Vec<_>>()),
                            _ => U::from_be_slice(&[0x5b; 32]),
                        };
                        let code = if width == 0 { vec![op::PUSH0] } else { pushn_bytes(width, v) };
                        run_code(ctx, "push_widths", &code);
                        let mut two = code.clone();
                        two.extend(&code);
                        two.push(op::ADD);
                        run_code(ctx, "push_widths", &two);
                    }
                }
            }
            Chunk::Straight(c) => {
                let alpha = straight_alphabet();
                let max = if tier.thorough() { 5 } else { 4 };
                run_seq_chunk(alpha.len(), max, c, &mut |ix| {
                    let code: Vec<u8> = ix.iter().flat_map(|i| alpha[*i].clone()).collect();
                    // prefix-closed pruning: a prefix that is not stack-safe stays unsafe when extended
                    run_code(ctx, "straight_line", &code)
                });
            }
            Chunk::MemSto(c) => {
                let alpha = memsto_alphabet();
                let max = if tier.thorough() { 5 } else { 4 };
                run_seq_chunk(alpha.len(), max, c, &mut |ix| {
                    let code: Vec<u8> = ix.iter().flat_map(|i| alpha[*i].clone()).collect();
                    run_code(ctx, "memory_storage", &code);
                    true
                });
            }
            Chunk::Long => {
                for code in long_programs() {
                    if !run_code(ctx, "boundary_lengths", &code) {
                        ctx.count("outside_domain", 1);
                    }
                }
                for code in far_memory_programs() {
                    run_code(ctx, "far_memory", &code);
                }
            }
            Chunk::Branch(c) => {
                let alpha = branch_alphabet();
                let max = if tier.thorough() { 7 } else { 6 };
                run_seq_chunk(alpha.len(), max, c, &mut |ix| {
                    let seq: Vec<Bt> = ix.iter().map(|i| alpha[*i]).collect();
                    if let Some(code) = expand_branch(&seq) {
                        run_code(ctx, "branching", &code);
                    }
                    true
                });
            }
        }
    }
    fn coverage(&self, tier: Tier, total: &Ctx) -> Map<String, Value> {
        let mut m = mc_coverage(
            total,
            total.distinct_count("nontrivial").max(1),
            total.get("programs").max(1),
            total.get("validated_paths"),
            &format!(
                "all-constant, stack-safe, loop-free programs: every ALU operator x B x B (|B| = {}; ADDMOD/MULMOD x 5 moduli); \
                 DUPn/SWAPn for n = 1..16 over stacks of depth n..17; every PUSH width 0..32 x 4 immediates; all straight-line \
                 sequences <= {} over 8 constants + 25 ALU opcodes + POP/DUP1/SWAP1/PC/CODESIZE (prefix-pruned on stack safety); all \
                 sequences <= {} over aligned MSTORE/MLOAD and SSTORE/SLOAD tokens with literal keys and with a computed key (0 + 1) for slot 1; all branching programs <= {} tokens \
                 over constant-condition JUMPI to 3 labels, stores, pushes, pops; 96 programs that store (MSTORE / MSTORE8) and load a word at 16 word-aligned offsets up to the 123 170 words a block's gas can pay for (alone, after a store at offset 0, on one side of a branch); 36 programs of boundary lengths (255..257, 24 575..24 577, 30 000, 49 152, 65 535..65 537, 70 000 bytes) that read CODESIZE and PC at either end and on both sides of a branch. The reference EVM enumerates all forced-branch \
                 paths; the tool's stored final states are evaluated by an independent evaluator and the multiset of (stack, memory \
                 words, per-key ordered write list) must equal the multiset of reference paths. states = distinct validated \
                 programs; traces validated = reference paths matched against implementation states",
                boundary_set(tier.thorough()).len(),
                if tier.thorough() { 5 } else { 4 },
                if tier.thorough() { 5 } else { 4 },
                if tier.thorough() { 7 } else { 6 }
            ),
            true,
        );
        m.insert("evaluations".into(), json!(total.get("programs")));
        m.insert("distinct_nontrivial".into(), json!(total.distinct_count("nontrivial")));
        m
    }
    fn assumptions(&self, _tier: Tier) -> Vec<String> {
        vec![
            "reference EVM and evaluator are trusted; environment: storage and memory initially zero".into(),
            "tree shape, thread order and gas are don't-cares; only closed arithmetic terms are compared".into(),
            "programs that are not stack-safe, loop, or touch unaligned memory are outside the property's domain and are counted as outside_domain".into(),
        ]
    }
    fn replay(&self, replay: &Value) -> bool {
        let code = unhex(replay["case"]["bytes"].as_str().unwrap());
        println!("code: {}", hex(&code));
        let x = explore(&code, true, &Limits::default());
        let offs = all_offsets(&x);
        for p in &x.paths {
            println!("reference path {:?}: {:?}", p.branches, ref_sig(p, &offs));
        }
        if let VmRun::Ran(o) = run_vm(&code, sle::vm::Config::default(), lazy()) {
            for s in o.vm.stored_states() {
                println!("tool state: {:?}", impl_sig(s, &offs));
            }
        }
        match check_code(&code) {
            Ok(_) => false,
            Err(v) => {
                println!("observed: {}: {}", v.key, v.what);
                true
            }
        }
    }
}
