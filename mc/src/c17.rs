//! C17 — strict mode surfaces every execution error; permissive mode tolerates bad jump targets.

use crate::asm::assemble;
use crate::c08::{expand, well_formed, Cond, Target, Tk};
use crate::infra::*;
use crate::obs::{analyze, lazy, Class, Obs};
use crate::prog::{run_seq_chunk, seq_chunks};
use crate::ref_evm::{explore, ErrEvent, ErrKind, Limits};
use crate::util::{hex, unhex};
use crate::vmrun::{run_vm, VmRun};
use serde_json::{json, Map, Value};
use std::collections::BTreeSet;
use storage_layout_extractor as sle;

pub fn alphabet() -> Vec<Tk> {
    use Target::*;
    let mut v = vec![
        Tk::L,
        Tk::P1,
        Tk::CallValue,
        Tk::Stop,
        Tk::Return0,
        Tk::Invalid,
        Tk::PushJumpdests,
        Tk::TruncPush,
        Tk::Sentinel,
        Tk::Pop,
        Tk::Add,
        Tk::Dup16,
        Tk::Swap16,
    ];
    for t in [Label(0), IntoPush, AfterLabel(0), Len, Big32(0), Big64(0), Symbolic] {
        v.push(Tk::J(t));
    }
    for t in [Label(0), IntoPush, AfterLabel(0), Len, Big32(0), Symbolic] {
        v.push(Tk::JI(Cond::Unknown, t));
    }
    v.push(Tk::JI(Cond::One, Len));
    v.push(Tk::JI(Cond::Zero, Len));
    v
}

fn class_of_ref(k: &ErrKind) -> &'static str {
    match k {
        ErrKind::StackUnderflow => "stack-under",
        ErrKind::StackOverflow => "stack-over",
        _ => "jump",
    }
}
fn class_of_impl(kind: &str) -> &'static str {
    match kind {
        "NoSuchStackFrame" => "stack-under",
        "StackDepthExceeded" => "stack-over",
        "InvalidOffsetForJump" | "InvalidJumpTarget" | "NonExistentJumpTarget" | "NoConcreteJumpDestination" => "jump",
        "GasLimitExceeded" => "gas",
        "StoppedByWatchdog" => "stopped",
        _ => "other",
    }
}

pub struct Verdict {
    pub key: String,
    pub what: String,
}

fn cfg(permissive: bool, gas: Option<usize>) -> sle::vm::Config {
    let mut c = sle::vm::Config::default().with_permissive_errors(permissive);
    if let Some(g) = gas {
        c = c.with_gas_limit(g);
    }
    c
}

pub struct Facts {
    pub predicted: usize,
    pub predicted_non_jump: usize,
}

/// The oracle on one byte string (default gas limit).
pub fn check_code(code: &[u8]) -> Result<Option<Facts>, Verdict> {
    let x = explore(code, false, &Limits::default());
    if x.capped || x.loops {
        return check_looping(code);
    }
    // symbolic JUMP targets are ended silently by the tool; not required to be an error in strict mode
    let required: BTreeSet<(&'static str, u32)> = x
        .events
        .iter()
        .filter(|e| !(e.kind == ErrKind::JumpSymbolic))
        .map(|e| (class_of_ref(&e.kind), e.offset))
        .collect();
    let any_non_jump = x.events.iter().any(|e: &ErrEvent| class_of_ref(&e.kind) != "jump");
    let len = code.len() as u32;

    // --- VM level, strict
    let strict = match run_vm(code, cfg(false, None), lazy()) {
        VmRun::Ran(o) => o,
        _ => return Ok(None),
    };
    let got: BTreeSet<(&'static str, u32)> = strict.errors.iter().map(|(k, l)| (class_of_impl(k), *l)).collect();
    for (k, l) in &strict.errors {
        if *l >= len {
            return Err(Verdict {
                key: format!("strict:location-outside-code:{k}"),
                what: format!("strict mode reports {k} at offset {l}, outside the {len}-byte code"),
            });
        }
    }
    for r in &required {
        if !got.contains(r) {
            return Err(Verdict {
                key: format!("strict:missing:{}", r.0),
                what: format!("the EVM raises a {} error at offset {} on an explored path but strict mode reports {:?}", r.0, r.1, strict.errors),
            });
        }
    }
    if !required.is_empty() && strict.exec_ok {
        return Err(Verdict {
            key: "strict:ok-despite-errors".into(),
            what: format!("strict execution succeeded although {required:?} are raised"),
        });
    }
    // --- VM level, permissive
    let perm = match run_vm(code, cfg(true, None), lazy()) {
        VmRun::Ran(o) => o,
        _ => return Ok(None),
    };
    if let Some((k, l)) = perm.errors.iter().find(|(k, _)| class_of_impl(k) == "jump") {
        return Err(Verdict {
            key: format!("permissive:fails-on-jump:{k}"),
            what: format!("permissive execution fails with the jump-target error {k} at offset {l}"),
        });
    }
    if any_non_jump && perm.exec_ok {
        return Err(Verdict {
            key: "permissive:ok-despite-errors".into(),
            what: format!("permissive execution succeeded although non-jump errors {:?} are raised", x.events),
        });
    }
    if !any_non_jump && !perm.exec_ok {
        return Err(Verdict {
            key: "permissive:fails-without-cause".into(),
            what: format!("permissive execution fails with {:?} although only jump-target errors (or none) are raised", perm.errors),
        });
    }
    // --- whole pipeline
    let s: Obs = analyze(code, cfg(false, None), &Vec::new(), lazy());
    let p: Obs = analyze(code, cfg(true, None), &Vec::new(), lazy());
    if s.class == Class::Panic || p.class == Class::Panic {
        return Ok(None);
    }
    if !required.is_empty() && s.class == Class::Ok {
        return Err(Verdict {
            key: "strict:analyze-ok-despite-errors".into(),
            what: format!("analyze() in strict mode returned a layout although {required:?} are raised"),
        });
    }
    if s.class != Class::Ok {
        for r in &required {
            if !s.errors.iter().any(|(k, l)| class_of_impl(k) == r.0 && *l == r.1) && s.class == Class::ErrExecution {
                return Err(Verdict {
                    key: format!("strict:analyze-missing:{}", r.0),
                    what: format!("analyze() in strict mode fails but does not list the {} error at offset {}: {:?}", r.0, r.1, s.errors),
                });
            }
        }
    }
    if s.class == Class::Ok {
        if p.class != Class::Ok {
            return Err(Verdict {
                key: "permissive:fails-where-strict-succeeds".into(),
                what: format!("strict analysis succeeds but permissive gives {:?}", p.json()),
            });
        }
        if s.layout != p.layout {
            return Err(Verdict {
                key: "permissive:different-layout".into(),
                what: format!("strict layout {} differs from permissive layout {}", s.canon_result(), p.canon_result()),
            });
        }
    }
    if !any_non_jump && p.class == Class::ErrExecution {
        return Err(Verdict {
            key: "permissive:analyze-fails-without-cause".into(),
            what: format!("analyze() in permissive mode fails with {:?} although only jump-target errors are raised", p.errors),
        });
    }
    if any_non_jump && p.class == Class::Ok {
        return Err(Verdict {
            key: "permissive:analyze-ok-despite-errors".into(),
            what: "analyze() in permissive mode returned a layout although non-jump errors are raised".into(),
        });
    }
    Ok(Some(Facts {
        predicted: x.events.len(),
        predicted_non_jump: x.events.iter().filter(|e| class_of_ref(&e.kind) != "jump").count(),
    }))
}

/// Programs with loops: the reference unrolls every loop so that no instruction is visited more than twice on a
/// path; every error event it meets must be listed by strict mode (the tool's iteration limit of 10 lies well
/// beyond that), and permissive mode must not fail on a jump-target error.
pub fn check_looping(code: &[u8]) -> Result<Option<Facts>, Verdict> {
    let lim = Limits {
        max_paths: 512,
        max_steps_per_path: 1024,
        max_visits: 2,
    };
    let x = explore(code, false, &lim);
    if x.paths.len() >= lim.max_paths {
        return Ok(None);
    }
    let required: BTreeSet<(&'static str, u32)> = x
        .events
        .iter()
        .filter(|e| !(e.kind == ErrKind::JumpSymbolic))
        .map(|e| (class_of_ref(&e.kind), e.offset))
        .collect();
    let strict = match run_vm(code, cfg(false, None), lazy()) {
        VmRun::Ran(o) => o,
        _ => return Ok(None),
    };
    let got: BTreeSet<(&'static str, u32)> = strict.errors.iter().map(|(k, l)| (class_of_impl(k), *l)).collect();
    for r in &required {
        if !got.contains(r) {
            return Err(Verdict {
                key: format!("strict:missing-in-loop:{}", r.0),
                what: format!(
                    "on a path that visits no instruction more than twice the EVM raises a {} error at offset {} but strict mode reports {:?}",
                    r.0, r.1, strict.errors
                ),
            });
        }
    }
    if !required.is_empty() && strict.exec_ok {
        return Err(Verdict {
            key: "strict:ok-despite-errors-in-loop".into(),
            what: format!("strict execution succeeded although {required:?} are raised inside a loop"),
        });
    }
    let perm = match run_vm(code, cfg(true, None), lazy()) {
        VmRun::Ran(o) => o,
        _ => return Ok(None),
    };
    if let Some((k, l)) = perm.errors.iter().find(|(k, _)| class_of_impl(k) == "jump") {
        return Err(Verdict {
            key: format!("permissive:fails-on-jump:{k}"),
            what: format!("permissive execution fails with the jump-target error {k} at offset {l}"),
        });
    }
    Ok(Some(Facts {
        predicted: x.events.len(),
        predicted_non_jump: x.events.iter().filter(|e| class_of_ref(&e.kind) != "jump").count(),
    }))
}

/// Cumulative minimum gas after each executed instruction of a reference path. Whether the JUMPDEST a taken jump
/// lands on counts as an executed (and paid) instruction is the tool's own business (today: a JUMP steps behind the
/// marker for free, a thread forked by JUMPI starts at the marker and pays for it), so both accountings are
/// computed: `charge_landing = false` is a lower bound of what the tool may count, `true` an upper bound.
fn path_gas(code: &[u8], p: &crate::ref_evm::PathResult, gas_of: &dyn Fn(u32) -> usize, charge_landing: bool) -> Vec<usize> {
    let kinds = crate::c10::ref_kinds(code);
    let mut out = Vec::new();
    let mut sum = 0usize;
    let mut jumped = false;
    let mut cursor = 0usize;
    for i in &p.executed {
        let b = code[*i as usize];
        let landed = b == 0x5b && jumped;
        if !landed || charge_landing {
            sum += gas_of(*i);
        }
        out.push(sum);
        jumped = false;
        if kinds[*i as usize] {
            if b == 0x56 {
                jumped = true;
            } else if b == 0x57 && cursor < p.branches.len() {
                jumped = p.branches[cursor];
                cursor += 1;
            }
        }
    }
    out
}

/// Gas family: cumulative minimum gas along some reference path exceeds the limit => both modes must fail with
/// a gas error located inside the code.
pub fn check_gas(code: &[u8], limit: usize) -> Result<Option<bool>, Verdict> {
    let x = explore(code, false, &Limits::default());
    if x.capped || x.loops {
        return Ok(None);
    }
    // minimum gas per offset from the disassembled instruction objects
    let Ok(stream) = sle::disassembly::InstructionStream::try_from(code) else {
        return Ok(None);
    };
    let Ok(thread) = stream.new_thread(0) else { return Ok(None) };
    let gas_of = |i: u32| thread.instruction(i).map(|o| o.min_gas_cost()).unwrap_or(0);
    // exceeded under the lower accounting = certainly exceeded; within under the upper accounting = certainly within;
    // in between (a landing JUMPDEST decides) either verdict is accepted
    let exceeded = x.paths.iter().any(|p| path_gas(code, p, &gas_of, false).into_iter().last().unwrap_or(0) > limit);
    let within = x.paths.iter().all(|p| path_gas(code, p, &gas_of, true).into_iter().last().unwrap_or(0) <= limit);
    for permissive in [false, true] {
        let o = match run_vm(code, cfg(permissive, Some(limit)), lazy()) {
            VmRun::Ran(o) => o,
            _ => return Ok(None),
        };
        let gas_err = o.errors.iter().find(|(k, _)| k == "GasLimitExceeded");
        if let Some((_, l)) = gas_err {
            if *l >= code.len() as u32 {
                return Err(Verdict {
                    key: "gas:location-outside-code".into(),
                    what: format!("gas error located at {l}, outside the code"),
                });
            }
            if within {
                return Err(Verdict {
                    key: "gas:spurious".into(),
                    what: format!("gas error reported although no path needs more than {limit} gas"),
                });
            }
        } else if exceeded {
            // an earlier non-gas error on the same path may legitimately end it first; only demand the gas
            // error when the reference sees no other event at all
            if x.events.is_empty() {
                return Err(Verdict {
                    key: format!("gas:not-reported:{}", if permissive { "permissive" } else { "strict" }),
                    what: format!("a path needs more than {limit} minimum gas but no gas error is reported (errors: {:?})", o.errors),
                });
            }
        }
    }
    Ok(Some(exceeded))
}

/// Every gas limit at which the verdict can change: each cumulative gas value reached after some instruction on
/// some reference path, and its two neighbours.
pub fn gas_boundaries(code: &[u8]) -> Vec<usize> {
    let x = explore(code, false, &Limits::default());
    let mut out = std::collections::BTreeSet::new();
    out.insert(GAS_LIMIT);
    if x.capped || x.loops {
        return out.into_iter().collect();
    }
    let Ok(stream) = sle::disassembly::InstructionStream::try_from(code) else {
        return out.into_iter().collect();
    };
    let Ok(thread) = stream.new_thread(0) else { return out.into_iter().collect() };
    let gas_of = |i: u32| thread.instruction(i).map(|o| o.min_gas_cost()).unwrap_or(0);
    for p in &x.paths {
        for charge in [false, true] {
            for sum in path_gas(code, p, &gas_of, charge) {
                out.insert(sum.saturating_sub(1));
                out.insert(sum);
                out.insert(sum + 1);
            }
        }
    }
    out.into_iter().collect()
}

pub struct C17;

fn max_len(tier: Tier) -> usize {
    if tier.thorough() {
        6
    } else {
        5
    }
}

const GAS_LIMIT: usize = 50;

impl Check for C17 {
    fn id(&self) -> &'static str {
        "C17"
    }
    fn level(&self) -> &'static str {
        "model_checking"
    }
    fn chunks(&self, _tier: Tier) -> usize {
        seq_chunks(alphabet().len()) + 1
    }
    fn run_chunk(&self, tier: Tier, chunk: usize, ctx: &mut Ctx) {
        let alpha = alphabet();
        let n = alpha.len();
        if chunk == seq_chunks(n) {
            // loops whose JUMPI target drifts from visit to visit
            for code in crate::c08::drifting_target_programs() {
                run_one(ctx, "drifting_target_loops", &code, "drifting-target loop");
            }
            // stack overflow family: 1024 or 1025 pushes, then every sequence of <= 2 tokens
            for pushes in [1023usize, 1024, 1025] {
                let prefix: Vec<u8> = vec![0x5f; pushes];
                let mut seqs: Vec<Vec<Tk>> = vec![vec![]];
                for a in &alpha {
                    seqs.push(vec![*a]);
                    for b in &alpha {
                        seqs.push(vec![*a, *b]);
                    }
                }
                for seq in seqs {
                    if !well_formed(&seq) {
                        continue;
                    }
                    let mut toks = vec![crate::asm::Tok::Raw(prefix.clone())];
                    toks.extend(expand(&seq));
                    let code = assemble(&toks);
                    run_one(ctx, "overflow_family", &code, &format!("{pushes} x PUSH0 + {seq:?}"));
                }
            }
            return;
        }
        run_seq_chunk(n, max_len(tier), chunk, &mut |ix| {
            let seq: Vec<Tk> = ix.iter().map(|i| alpha[*i]).collect();
            if !well_formed(&seq) {
                return true;
            }
            let code = assemble(&expand(&seq));
            run_one(ctx, "programs", &code, &format!("{seq:?}"));
            if ix.len() <= if tier.thorough() { 5 } else { 4 } {
                for limit in gas_boundaries(&code) {
                    ctx.case(|| json!({"bytes": hex(&code), "gas_limit": limit}));
                    ctx.count("gas_programs", 1);
                    match check_gas(&code, limit) {
                        Ok(Some(true)) => ctx.count("gas_exceeded_programs", 1),
                        Ok(_) => {}
                        Err(v) => {
                            ctx.violation(v.key, format!("{} [{seq:?} = {} at gas limit {limit}]", v.what, hex(&code)), json!({"bytes": hex(&code), "gas_limit": limit}));
                            break;
                        }
                    }
                }
            }
            true
        });
    }
    fn coverage(&self, tier: Tier, total: &Ctx) -> Map<String, Value> {
        let mut m = mc_coverage(
            total,
            total.distinct_count("nontrivial").max(1),
            (total.get("programs") + total.get("overflow_family") + total.get("gas_programs")).max(1),
            total.get("validated"),
            &format!(
                "all token sequences of length <= {} over {} tokens (stack-underflowing POP/ADD/DUP16/SWAP16, JUMP and JUMPI to valid, \
                 in-push-data (also the partial data of a trailing PUSH32 that the end of the code cuts short), non-JUMPDEST, out-of-range, >=2^32 and symbolic targets, halting instructions), 2 048 loops whose JUMPI target \
                 advances on every iteration (bounded unrolling in the reference), a 1023/1024/1025 x PUSH0 \
                 prefix family for stack overflow, and a gas family on sequences <= 4 (5 in the thorough tier) run at gas limit {} and at EVERY gas limit at which a verdict can change (each cumulative minimum-gas value after some instruction of some reference path, and its two neighbours). For every loop-free program the \
                 reference EVM predicts the error events (class, offset) of all forced-branch paths; strict mode must fail and list \
                 each of them inside the code, permissive mode must fail iff a non-jump event exists, and strict success implies an \
                 equal permissive layout; checked on VM::execute and on analyze(). states = distinct programs with a predicted \
                 event; traces validated = programs whose predicted event set was compared with both modes",
                max_len(tier),
                alphabet().len(),
                GAS_LIMIT
            ),
            true,
        );
        m.insert("evaluations".into(), json!(total.get("programs") + total.get("overflow_family") + total.get("gas_programs")));
        m.insert("distinct_nontrivial".into(), json!(total.distinct_count("nontrivial")));
        m
    }
    fn assumptions(&self, _tier: Tier) -> Vec<String> {
        vec![
            "reference EVM predicts error events; for programs with loops only the events on paths that visit no instruction more than twice are demanded (strict direction only)".into(),
            "a JUMP (not JUMPI) to a non-constant target is ended silently by the tool: not required to be an error in strict mode, only required not to fail in permissive mode".into(),
            "a trailing PUSH cut short by the end of the code ends its path in the reference as in the tool (decoded as invalid by design); a stack overflow that only this instruction would cause is a don't-care".into(),
            "multiplicity and order of error payloads and the exact variant within a class (stack-under, stack-over, jump, gas) are don't-cares".into(),
        ]
    }
    fn replay(&self, replay: &Value) -> bool {
        let code = unhex(replay["case"]["bytes"].as_str().unwrap());
        println!("code: {}", hex(&code));
        let x = explore(&code, false, &Limits::default());
        println!("reference events: {:?}", x.events);
        for permissive in [false, true] {
            if let VmRun::Ran(o) = run_vm(&code, cfg(permissive, None), lazy()) {
                println!("permissive={permissive}: execute ok={} errors={:?}", o.exec_ok, o.errors);
            }
        }
        let r = if let Some(g) = replay["case"]["gas_limit"].as_u64() {
            check_gas(&code, g as usize).map(|_| ())
        } else {
            check_code(&code).map(|_| ())
        };
        match r {
            Ok(()) => false,
            Err(v) => {
                println!("observed: {}: {}", v.key, v.what);
                true
            }
        }
    }
}

fn run_one(ctx: &mut Ctx, family: &str, code: &[u8], desc: &str) {
    ctx.case(|| json!({"bytes": hex(code)}));
    ctx.count(family, 1);
    match check_code(code) {
        Ok(Some(f)) => {
            ctx.count("validated", 1);
            if f.predicted > 0 {
                ctx.distinct("nontrivial", crate::util::h64(code));
                if f.predicted_non_jump > 0 {
                    ctx.count("with_non_jump_event", 1);
                } else {
                    ctx.count("with_only_jump_events", 1);
                    ctx.sample(|| json!({"program": desc, "bytes": hex(&code[..code.len().min(40)]), "verdict": "strict fails and lists the events, permissive succeeds"}));
                }
            }
        }
        Ok(None) => ctx.count("skipped_loops_or_other_property", 1),
        Err(v) => ctx.violation(v.key, format!("{} [{desc} = {}]", v.what, hex(&code[..code.len().min(48)])), json!({"bytes": hex(code)})),
    }
}
