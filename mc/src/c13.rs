//! C13 — the watchdog can stop the analysis at any poll and is polled as often as promised
//! (fault enumeration: every poll index of every listed run is an interruption point).

use crate::asm::{arrkey, assemble, mapkey_from_stack, o, op, p, pu, Tok};
use crate::corpus;
use crate::infra::*;
use crate::obs::{analyze, lazy, with_controller, Class, CountingWatchdog};
use crate::ref_evm::{explore, Limits};
use crate::u256::U;
use crate::util::{hex, unhex};
use serde_json::{json, Map, Value};
use std::collections::BTreeSet;
use std::sync::OnceLock;
use storage_layout_extractor as sle;
use sle::disassembly::InstructionStream;
use sle::tc::TypeChecker;
use sle::vm::VM;

#[derive(Clone)]
pub struct Prog {
    pub name: String,
    pub code: Vec<u8>,
    /// stride over k (1 = exhaustive); k <= 200 is always exhaustive
    pub stride: u64,
}

fn copy_prog(opcode: u8, size: u64) -> Vec<u8> {
    // size, offset, destOffset (, address) on the stack, then a store so that the type checker has work too
    let mut t = vec![p(size), p(0), p(0)];
    if opcode == op::EXTCODECOPY {
        t.push(o(op::CALLER));
    }
    t.push(o(opcode));
    t.extend([p(0), o(op::MLOAD), p(1), o(op::SSTORE)]);
    assemble(&t)
}

/// `n` copies of `words` words each by the same opcode: every copy loop is shorter than the larger poll intervals, so
/// only the sum of the work shows whether the polls track it (a loop that restarts its count at every instruction
/// and polls only after a full interval would never poll here)
fn many_copies_prog(opcode: u8, n: usize, words: u64) -> Vec<u8> {
    let mut t = Vec::new();
    for _ in 0..n {
        t.extend([p(words * 32), p(0), p(0)]);
        if opcode == op::EXTCODECOPY {
            t.push(o(op::CALLER));
        }
        t.push(o(opcode));
    }
    t.extend([p(0), o(op::MLOAD), p(1), o(op::SSTORE)]);
    assemble(&t)
}

fn call_prog(size: u64) -> Vec<u8> {
    // CALL with a constant return-data size: retSize retOffset argsSize argsOffset value address gas
    assemble(&[p(size), p(0), p(0), p(0), p(0), o(op::CALLER), o(op::GAS), o(op::CALL), p(2), o(op::SSTORE)])
}

fn idiom_prog() -> Vec<u8> {
    // several slots of different kinds so that lifting, assignment, inference, unification and layout
    // building all have more than one iteration
    let mut t: Vec<Tok> = Vec::new();
    // plain words
    for s in 0..4u64 {
        t.extend([o(op::CALLVALUE), p(s), o(op::SSTORE)]);
    }
    // mapping(address => word) at slot 4: write
    t.push(o(op::CALLVALUE));
    t.push(o(op::CALLER));
    t.extend(mapkey_from_stack(U::from_u64(4)));
    t.push(o(op::SSTORE));
    // dynamic array at slot 5: write element calldata[0]
    t.push(o(op::CALLVALUE));
    t.extend(arrkey(U::from_u64(5)));
    t.extend([p(0), o(op::CALLDATALOAD), o(op::ADD), o(op::SSTORE)]);
    // address-masked word at slot 6
    t.extend([o(op::CALLER), pu(U::pow2(160).sub(U::ONE)), o(op::AND), p(6), o(op::SSTORE)]);
    // reads
    for s in 7..12u64 {
        t.extend([p(s), o(op::SLOAD), o(op::POP)]);
    }
    t.push(o(op::STOP));
    assemble(&t)
}

fn programs(tier: Tier) -> Vec<Prog> {
    let mut v = Vec::new();
    let mut add = |name: &str, code: Vec<u8>, stride: u64| {
        v.push(Prog {
            name: name.to_string(),
            code,
            stride,
        })
    };
    add("straight", unhex("3434015f55345f5500"), 1);
    add("loop", unhex("5b3460015f5534600057"), 1);
    add("fork", unhex("346009573460015560025500005b34600355"), 1);
    let limit = sle::vm::Config::default().single_memory_operation_size_limit as u64;
    for (name, opc) in [
        ("calldatacopy", op::CALLDATACOPY),
        ("codecopy", op::CODECOPY),
        ("extcodecopy", op::EXTCODECOPY),
        ("returndatacopy", op::RETURNDATACOPY),
    ] {
        for size in [0u64, 1, 32, 33, 320, limit + 1] {
            add(&format!("{name}({size})"), copy_prog(opc, size), 1);
        }
        // many short copies (round 8): 99 words is just under interval 100, 6 just under 7, and 2..3 around 2 and 3
        for (n, words) in [(6usize, 99u64), (9, 6), (5, 2)] {
            add(&format!("{n}x{name}({words} words)"), many_copies_prog(opc, n, words), 7);
        }
    }
    for size in [0u64, 33, 320] {
        add(&format!("call-returndata({size})"), call_prog(size), 1);
    }
    // many short return-data copies by the four call opcodes (round 8, same reason as the short copies above)
    for (name, opc, has_value) in [("call", op::CALL, true), ("callcode", 0xf2u8, true), ("delegatecall", op::DELEGATECALL, false), ("staticcall", op::STATICCALL, false)] {
        for (n, words) in [(6usize, 99u64), (9, 6)] {
            let mut t = Vec::new();
            for _ in 0..n {
                t.extend([p(words * 32), p(0), p(0), p(0)]);
                if has_value {
                    t.push(p(0));
                }
                t.extend([o(op::CALLER), o(op::GAS), o(opc), o(op::POP)]);
            }
            t.extend([p(0), o(op::MLOAD), p(2), o(op::SSTORE)]);
            add(&format!("{n}x{name}-returndata({words} words)"), assemble(&t), 7);
        }
    }
    add("idioms", idiom_prog(), 1);
    for c in corpus::load() {
        if c.name.starts_with("PackedEncodings") {
            add("PackedEncodings.json", c.code.clone(), 1);
        } else if c.name.starts_with("SimpleContract") {
            add("SimpleContract.json", c.code.clone(), if tier.thorough() { 1 } else { 7 });
        } else if tier.thorough() && c.code.len() <= 2000 {
            // further small shipped contracts, stratified (every k <= 200, then every 53rd)
            add(&c.name.clone(), c.code.clone(), 53);
        }
    }
    v
}

const INTERVALS: [usize; 6] = [1, 2, 3, 7, 100, 1000];

#[derive(Clone)]
struct Chunk {
    prog: usize,
    interval: usize,
    from: u64,
    to: u64, // k range, inclusive of from, exclusive of to
    total_polls: u64,
    kind: Kind,
}
#[derive(Clone, PartialEq)]
enum Kind {
    Interrupt,
    Baseline,
    Frequency,
}

fn copy_ops(code: &[u8]) -> u64 {
    let kinds = crate::c10::ref_kinds(code);
    code.iter()
        .zip(&kinds)
        .filter(|(b, k)| **k && matches!(**b, 0x37 | 0x39 | 0x3c | 0x3e | 0xf1 | 0xf2 | 0xf4 | 0xfa))
        .count() as u64
}

fn baseline(code: &[u8], interval: usize) -> (crate::obs::Obs, u64) {
    let w = CountingWatchdog::new(interval, None);
    let o = analyze(code, sle::vm::Config::default(), &Vec::new(), w.clone());
    (o, w.polls.get())
}

fn plan(tier: Tier) -> &'static Vec<Chunk> {
    static Q: OnceLock<Vec<Chunk>> = OnceLock::new();
    static T: OnceLock<Vec<Chunk>> = OnceLock::new();
    let cell = if tier.thorough() { &T } else { &Q };
    cell.get_or_init(|| {
        install_quiet_panic_hook();
        let progs = programs(tier);
        let mut v = Vec::new();
        for (pi, pr) in progs.iter().enumerate() {
            v.push(Chunk {
                prog: pi,
                interval: 1,
                from: 0,
                to: 0,
                total_polls: 0,
                kind: Kind::Frequency,
            });
            for interval in INTERVALS {
                // the additional corpus contracts are only interrupted at two poll intervals
                if pr.stride > 7 && interval != 1 && interval != 100 {
                    continue;
                }
                let (_, polls) = baseline(&pr.code, interval);
                v.push(Chunk {
                    prog: pi,
                    interval,
                    from: 0,
                    to: 0,
                    total_polls: polls,
                    kind: Kind::Baseline,
                });
                let step = 128u64;
                let mut from = 0;
                while from <= polls {
                    let to = (from + step).min(polls + 1);
                    v.push(Chunk {
                        prog: pi,
                        interval,
                        from,
                        to,
                        total_polls: polls,
                        kind: Kind::Interrupt,
                    });
                    from = to;
                }
            }
        }
        v
    })
}

pub struct Verdict {
    pub key: String,
    pub what: String,
}

/// One interruption point, in both error modes (the mode decides which execution errors are reported; a stop
/// is never one that may be dropped), for the whole pipeline and for the VM stage on its own.
pub fn check_stop_at(code: &[u8], interval: usize, k: u64) -> Result<(), Verdict> {
    for permissive in [false, true] {
        check_stop_at_mode(code, interval, k, permissive).map_err(|v| Verdict {
            key: if permissive { format!("{}:permissive", v.key) } else { v.key },
            what: if permissive { format!("{} (permissive error mode)", v.what) } else { v.what },
        })?;
    }
    Ok(())
}

fn check_stop_at_mode(code: &[u8], interval: usize, k: u64, permissive: bool) -> Result<(), Verdict> {
    let cfg = || sle::vm::Config::default().with_permissive_errors(permissive);
    // the VM stage alone: once the watchdog has said stop, execute() must not report success
    let (r, _) = with_controller(&Vec::new(), || -> Result<Option<(u64, bool, String)>, String> {
        let stream = InstructionStream::try_from(code).map_err(|e| e.to_string())?;
        let w = CountingWatchdog::new(interval, Some(k));
        let mut vm = VM::new(stream, cfg(), w.clone()).map_err(|e| e.to_string())?;
        let r = vm.execute();
        let shown = format!("{r:?}");
        Ok(Some((w.polls.get(), r.is_ok(), shown)))
    });
    if let Ok(Ok(Some((polls, ok, shown)))) = r {
        if polls > k {
            if ok {
                return Err(Verdict {
                    key: "vm-stage-succeeds-after-stop".into(),
                    what: format!("the watchdog said stop at poll {k} (the VM polled {polls} times) but VM::execute returned Ok: its partial result would be taken for a complete one"),
                });
            }
            if !shown.contains("StoppedByWatchdog") {
                return Err(Verdict {
                    key: "vm-stage-stop-not-reported".into(),
                    what: format!("the watchdog said stop at poll {k}; VM::execute failed without a stopped-by-watchdog error: {}", shown.chars().take(300).collect::<String>()),
                });
            }
        }
    }
    let w = CountingWatchdog::new(interval, Some(k));
    let o = analyze(code, cfg(), &Vec::new(), w.clone());
    let polls = w.polls.get();
    if polls <= k {
        // the run ended before reaching poll k: nothing was interrupted
        return Ok(());
    }
    match o.class {
        Class::ErrStopped => {}
        Class::Ok => {
            return Err(Verdict {
                key: "layout-after-stop".into(),
                what: format!("the watchdog said stop at poll {k} but the analysis returned a layout: {}", o.canon_result()),
            })
        }
        Class::Panic => return Ok(()),
        _ => {
            return Err(Verdict {
                key: "stop-not-reported".into(),
                what: format!("the watchdog said stop at poll {k}; the analysis failed without a stopped-by-watchdog error: {:?}", o.errors),
            })
        }
    }
    let slack = 4 + 20 * copy_ops(code);
    if polls > k + 1 + slack {
        return Err(Verdict {
            key: "keeps-polling-after-stop".into(),
            what: format!("stop was answered from poll {k} on, yet the run made {polls} polls in total (allowed {} further)", slack),
        });
    }
    Ok(())
}

/// Polls made by `TypeChecker::unify` (unification + layout building) at one poll interval; the earlier stages run
/// unmonitored.
fn unify_polls(code: &[u8], interval: usize) -> Option<u64> {
    let (r, _) = with_controller(&Vec::new(), || -> Option<u64> {
        let stream = InstructionStream::try_from(code).ok()?;
        let mut vm = VM::new(stream, sle::vm::Config::default().with_permissive_errors(true), lazy()).ok()?;
        let _ = vm.execute();
        let result = vm.consume();
        let w = CountingWatchdog::new(interval, None);
        let mut tc = TypeChecker::new(sle::tc::Config::default(), w.clone());
        let lifted = tc.lift(result).ok()?;
        tc.assign_vars(lifted).ok()?;
        tc.infer().ok()?;
        let before = w.polls.get();
        let _ = tc.unify();
        Some(w.polls.get() - before)
    });
    r.ok().flatten()
}

/// Frequency: each stage driven on its own with its own counting watchdog.
pub fn check_frequency(code: &[u8], interval: usize) -> Result<Vec<(String, u64, u64)>, Verdict> {
    let mut report = Vec::new();
    let within = |stage: &str, work: u64, polls: u64, loops: u64| -> Result<(), Verdict> {
        let k = interval as u64;
        let lo = work / k;
        // extra polls are a don't-care up to a factor of two (a loop may legitimately poll at its head and its tail);
        // polling on (nearly) every iteration when an interval was requested is not
        let hi = 2 * ((work + k - 1) / k) + loops + 2;
        if polls < lo || polls > hi {
            return Err(Verdict {
                key: format!("frequency:{stage}:{}", if polls < lo { "too-few" } else { "too-many" }),
                what: format!("{stage}: {work} iterations at poll interval {interval} made {polls} polls (expected {lo}..={hi})"),
            });
        }
        Ok(())
    };
    // --- VM: only for programs whose work the reference can count (loop-free, JUMP-free)
    let kinds = crate::c10::ref_kinds(code);
    let has_jump = code.iter().zip(&kinds).any(|(b, k)| *k && *b == 0x56);
    let x = explore(code, false, &Limits::default());
    let copies: Vec<u64> = copy_words(code);
    let (r, _) = with_controller(&Vec::new(), || -> Result<Option<(u64, sle::vm::ExecutionResult)>, String> {
        let stream = InstructionStream::try_from(code).map_err(|e| e.to_string())?;
        let w = CountingWatchdog::new(interval, None);
        let mut vm = VM::new(stream, sle::vm::Config::default().with_permissive_errors(true), w.clone()).map_err(|e| e.to_string())?;
        let _ = vm.execute();
        Ok(Some((w.polls.get(), vm.consume())))
    });
    let Ok(Ok(Some((vm_polls, result)))) = r else { return Ok(report) };
    // whatever the control flow (loops, forks, jumps): without bulk-copy instructions the only polling loop of the VM is
    // its main loop, so the polls at interval k must track the iterations, which the same run at interval 1 counts
    if interval > 1 && copy_ops(code) == 0 {
        let (r1, _) = with_controller(&Vec::new(), || -> Option<u64> {
            let stream = InstructionStream::try_from(code).ok()?;
            let w = CountingWatchdog::new(1, None);
            let mut vm = VM::new(stream, sle::vm::Config::default().with_permissive_errors(true), w.clone()).ok()?;
            let _ = vm.execute();
            Some(w.polls.get())
        });
        if let Ok(Some(p1)) = r1 {
            let k = interval as u64;
            let (lo, hi) = ((p1 / k).saturating_sub(1), (p1 + k - 1) / k + 1);
            if vm_polls < lo || vm_polls > hi {
                return Err(Verdict {
                    key: format!("frequency:vm-main-loop:{}", if vm_polls < lo { "too-few" } else { "too-many" }),
                    what: format!("the VM's main loop makes {p1} iterations; at poll interval {interval} it polled {vm_polls} times (expected {lo}..={hi})"),
                });
            }
        }
    }
    if !has_jump && !x.loops && !x.capped {
        // instructions executed = nodes of the trie of reference paths
        let mut trie: BTreeSet<Vec<u32>> = BTreeSet::new();
        for pth in &x.paths {
            // distinguish the two sides of a fork by the branch vector prefix
            let mut prefix = Vec::new();
            let mut cursor = 0;
            for off in pth.executed.iter() {
                prefix.push(*off);
                trie.insert(prefix.clone());
                if code[*off as usize] == 0x57 && cursor < pth.branches.len() {
                    // the decision taken here separates the two sides even when they continue at the same offset
                    prefix.push(1_000_000 + pth.branches[cursor] as u32);
                    cursor += 1;
                }
            }
        }
        // the VM's main loop also steps through the filler entries that stand for push immediates, so an
        // instruction counts as many iterations as it has bytes
        let work: u64 = trie
            .iter()
            .map(|k| {
                let off = *k.last().unwrap() as usize;
                let b = code[off];
                if (0x60..=0x7f).contains(&b) {
                    1 + ((b - 0x5f) as usize).min(code.len() - off - 1) as u64
                } else {
                    1
                }
            })
            .sum();
        let copy_polls: u64 = copies.iter().map(|w| (w + interval as u64 - 1) / interval as u64).sum();
        let k = interval as u64;
        // the promise is about the iterations waited between two polls (`Watchdog::poll_every`), so what is bounded from
        // below is the poll count against the *sum* of the work: copy loops restart their count at every instruction, and
        // a sequence of loops each shorter than the interval must still be polled as often as its total length demands
        let lo = (work + copies.iter().sum::<u64>()) / k;
        let hi = 2 * ((work + k - 1) / k + copy_polls) + 2 + copies.len() as u64;
        report.push(("vm".into(), work, vm_polls));
        if vm_polls < lo || vm_polls > hi {
            return Err(Verdict {
                key: format!("frequency:vm:{}", if vm_polls < lo { "too-few" } else { "too-many" }),
                what: format!(
                    "VM: {work} instructions and copy loops of {copies:?} words at poll interval {interval} made {vm_polls} polls (expected {lo}..={hi})"
                ),
            });
        }
    }
    // --- type checker phases
    let staged = guarded(|| -> Result<Vec<(String, u64, u64)>, Verdict> {
        let mut rep = Vec::new();
        let (r, _) = with_controller(&Vec::new(), || -> Result<Vec<(String, u64, u64)>, Verdict> {
            let mut rep = Vec::new();
            use std::collections::HashSet;
            let unique: HashSet<_> = result.clone().all_values().into_iter().collect();
            let w = CountingWatchdog::new(interval, None);
            let mut tc = TypeChecker::new(sle::tc::Config::default(), w.clone());
            let Ok(lifted) = tc.lift(result) else { return Ok(rep) };
            within("lift", unique.len() as u64, w.polls.get(), 1)?;
            rep.push(("lift".to_string(), unique.len() as u64, w.polls.get()));
            let before = w.polls.get();
            let n = lifted.len() as u64;
            if tc.assign_vars(lifted).is_err() {
                return Ok(rep);
            }
            within("assign_vars", n, w.polls.get() - before, 1)?;
            rep.push(("assign_vars".to_string(), n, w.polls.get() - before));
            let before = w.polls.get();
            let n = tc.state().values().len() as u64;
            if tc.infer().is_err() {
                return Ok(rep);
            }
            within("infer", n, w.polls.get() - before, 1)?;
            rep.push(("infer".to_string(), n, w.polls.get() - before));
            let before = w.polls.get();
            let classes = tc.state().variables().len() as u64;
            // independent count of the work of the FIRST unification round: equivalence classes (under the declared
            // equalities) that carry at least one typing judgement; each is one iteration of the round loop
            let first_round = {
                let st = tc.state();
                let vars = st.variables();
                let index: std::collections::HashMap<_, usize> = vars.iter().enumerate().map(|(i, v)| (*v, i)).collect();
                let mut parent: Vec<usize> = (0..vars.len()).collect();
                fn find(p: &mut Vec<usize>, i: usize) -> usize {
                    let mut r = i;
                    while p[r] != r {
                        r = p[r];
                    }
                    let mut c = i;
                    while p[c] != r {
                        let n = p[c];
                        p[c] = r;
                        c = n;
                    }
                    r
                }
                let mut has_data = vec![false; vars.len()];
                for (i, v) in vars.iter().enumerate() {
                    for e in st.inferences(*v) {
                        if let sle::tc::expression::TypeExpression::Equal { id } = e {
                            if let Some(j) = index.get(id) {
                                let (a, b) = (find(&mut parent, i), find(&mut parent, *j));
                                parent[a] = b;
                            }
                        }
                    }
                }
                for (i, v) in vars.iter().enumerate() {
                    if st.inferences(*v).iter().any(|e| !matches!(e, sle::tc::expression::TypeExpression::Equal { .. })) {
                        let r = find(&mut parent, i);
                        has_data[r] = true;
                    }
                }
                has_data.iter().filter(|b| **b).count() as u64
            };
            let r = tc.unify();
            let polls = w.polls.get() - before;
            if polls < first_round / interval as u64 {
                return Err(Verdict {
                    key: "frequency:unify:too-few".into(),
                    what: format!(
                        "the first unification round alone folds {first_round} classes; at poll interval {interval} unification and layout building together made {polls} polls (at least {} expected)",
                        first_round / interval as u64
                    ),
                });
            }
            // unification + layout building: at least one poll when there is anything to do
            if classes > 0 && polls == 0 {
                return Err(Verdict {
                    key: "frequency:unify:too-few".into(),
                    what: format!("unification over {classes} type variables at poll interval {interval} never polled"),
                });
            }
            if interval > 1 {
                // at interval 1 every checked iteration is a poll, so that run counts the iterations; polling (nearly)
                // every iteration when an interval was requested does not track the work any more than never polling
                if let Some(p1) = unify_polls(code, 1) {
                    let k = interval as u64;
                    let hi = 2 * ((p1 + k - 1) / k) + 4;
                    if polls > hi {
                        return Err(Verdict {
                            key: "frequency:unify:too-many".into(),
                            what: format!("unification and layout building have {p1} polled iterations; at poll interval {interval} they made {polls} polls (at most {hi} expected)"),
                        });
                    }
                }
            }
            if interval == 1 {
                if let Ok(layout) = &r {
                    // with interval 1 every class of every round and every layout slot is a poll
                    let slots: BTreeSet<String> = layout.slots().iter().map(|s| format!("{:x}", s.index.0)).collect();
                    if polls < slots.len() as u64 {
                        return Err(Verdict {
                            key: "frequency:layout:too-few".into(),
                            what: format!("unify + layout building made {polls} polls for {} slots at interval 1", slots.len()),
                        });
                    }
                }
            }
            rep.push(("unify+layout".to_string(), classes, polls));
            Ok(rep)
        });
        match r {
            Ok(x) => rep.extend(x?),
            Err(_) => {}
        }
        Ok(rep)
    });
    match staged {
        Ok(Ok(rep)) => report.extend(rep),
        Ok(Err(v)) => return Err(v),
        Err(_) => {}
    }
    Ok(report)
}

/// Main-loop iterations the VM needs for a loop-free, JUMP-free program: the nodes of the trie of reference paths,
/// each weighted by the instruction's length in bytes (the VM steps through push-data filler entries).
pub fn ref_vm_work(code: &[u8], x: &crate::ref_evm::Exploration) -> Option<u64> {
    let kinds = crate::c10::ref_kinds(code);
    let has_jump = code.iter().zip(&kinds).any(|(b, k)| *k && *b == 0x56);
    if has_jump || x.loops || x.capped {
        return None;
    }
    let mut trie: BTreeSet<Vec<u32>> = BTreeSet::new();
    for pth in &x.paths {
        let mut prefix = Vec::new();
        let mut cursor = 0;
        for off in pth.executed.iter() {
            prefix.push(*off);
            trie.insert(prefix.clone());
            if code[*off as usize] == 0x57 && cursor < pth.branches.len() {
                prefix.push(1_000_000 + pth.branches[cursor] as u32);
                cursor += 1;
            }
        }
    }
    Some(
        trie.iter()
            .map(|k| {
                let off = *k.last().unwrap() as usize;
                let b = code[off];
                if (0x60..=0x7f).contains(&b) {
                    1 + ((b - 0x5f) as usize).min(code.len() - off - 1) as u64
                } else {
                    1
                }
            })
            .sum(),
    )
}

/// Number of 32-byte words each copy-type instruction with a literal size copies (straight-line programs only).
fn copy_words(code: &[u8]) -> Vec<u64> {
    let limit = sle::vm::Config::default().single_memory_operation_size_limit as u64;
    let x = explore(code, false, &Limits::default());
    let mut out = Vec::new();
    if x.paths.len() != 1 {
        return out;
    }
    // replay the single path keeping the stack at each copy instruction: reuse the reference explorer on prefixes
    let kinds = crate::c10::ref_kinds(code);
    for (i, b) in code.iter().enumerate() {
        if !kinds[i] {
            continue;
        }
        let size_pos = match *b {
            0x37 | 0x39 | 0x3e => Some(2usize),
            0x3c => Some(3),
            0xf1 | 0xf2 => Some(6),
            0xf4 | 0xfa => Some(5),
            _ => None,
        };
        if let Some(pos) = size_pos {
            let pre = explore(&code[..i], false, &Limits::default());
            if let Some(pth) = pre.paths.first() {
                let st = &pth.stack;
                if st.len() > pos {
                    if let crate::ref_evm::V::C(sz) = st[st.len() - 1 - pos] {
                        let cap = if *b == 0x39 || *b == 0x3c { sle::constant::CONTRACT_MAXIMUM_SIZE_BYTES as u64 } else { limit };
                        let bytes = sz.as_u64_checked().unwrap_or(u64::MAX).min(cap);
                        out.push((bytes + 31) / 32);
                    }
                }
            }
        }
    }
    out
}

pub struct C13;

impl Check for C13 {
    fn id(&self) -> &'static str {
        "C13"
    }
    fn level(&self) -> &'static str {
        "fault_enumeration"
    }
    fn chunks(&self, tier: Tier) -> usize {
        plan(tier).len()
    }
    fn run_chunk(&self, tier: Tier, chunk: usize, ctx: &mut Ctx) {
        let c = plan(tier)[chunk].clone();
        let progs = programs(tier);
        let pr = &progs[c.prog];
        match c.kind {
            Kind::Frequency => {
                for interval in INTERVALS {
                    ctx.case(|| json!({"program": pr.name, "bytes": hex(&pr.code), "interval": interval, "mode": "frequency"}));
                    ctx.count("frequency_runs", 1);
                    match check_frequency(&pr.code, interval) {
                        Ok(rep) => {
                            for (stage, work, polls) in &rep {
                                ctx.count(&format!("stage_{stage}_measured"), 1);
                                if *work > interval as u64 {
                                    ctx.distinct("nontrivial", crate::util::h64(&(&pr.name, interval, stage)));
                                }
                                let _ = polls;
                            }
                            if interval == 3 {
                                ctx.sample(|| json!({"program": pr.name, "interval": interval, "stage_work_polls": rep.iter().map(|(s, w, p)| format!("{s}:{w}:{p}")).collect::<Vec<_>>() }));
                            }
                        }
                        Err(v) => ctx.violation(
                            v.key,
                            format!("{} [{}]", v.what, pr.name),
                            json!({"program": pr.name, "bytes": hex(&pr.code), "interval": interval, "mode": "frequency"}),
                        ),
                    }
                }
            }
            Kind::Baseline => {
                ctx.count("baseline_runs", 1);
                let (o, polls) = baseline(&pr.code, c.interval);
                let plain = analyze(&pr.code, sle::vm::Config::default(), &Vec::new(), lazy());
                if o.canon() != plain.canon() {
                    ctx.violation(
                        "monitored-differs",
                        format!("a never-stopping watchdog (interval {}) changes the result: {} vs {}", c.interval, o.canon(), plain.canon()),
                        json!({"program": pr.name, "bytes": hex(&pr.code), "interval": c.interval, "mode": "baseline"}),
                    );
                }
                // determinism of the poll count itself (the interruption points are only meaningful if it is)
                let (_, again) = baseline(&pr.code, c.interval);
                if again != polls {
                    ctx.notes.push(format!("poll count of {} at interval {} is not reproducible: {polls} vs {again}", pr.name, c.interval));
                    ctx.violation(
                        "machinery:poll-count-unstable",
                        format!("poll count differs between two identical runs: {polls} vs {again}"),
                        json!({"program": pr.name, "bytes": hex(&pr.code), "interval": c.interval, "mode": "baseline"}),
                    );
                }
                ctx.count("total_poll_points", polls + 1);
            }
            Kind::Interrupt => {
                for k in c.from..c.to {
                    if k > 200 && pr.stride > 1 && k % pr.stride != 0 && k + 1 != c.total_polls {
                        continue;
                    }
                    ctx.case(|| json!({"program": pr.name, "bytes": hex(&pr.code), "interval": c.interval, "stop_at": k}));
                    ctx.count("interrupted_runs", 1);
                    ctx.distinct("nontrivial", crate::util::h64(&(&pr.name, c.interval, k)));
                    if let Err(v) = check_stop_at(&pr.code, c.interval, k) {
                        ctx.violation(
                            v.key,
                            format!("{} [{} interval {}]", v.what, pr.name, c.interval),
                            json!({"program": pr.name, "bytes": hex(&pr.code), "interval": c.interval, "stop_at": k}),
                        );
                    } else if k == c.total_polls / 2 {
                        ctx.sample(|| json!({"program": pr.name, "interval": c.interval, "stop_at": k, "of": c.total_polls, "verdict": "stopped-by-watchdog error, no layout"}));
                    }
                }
            }
        }
    }
    fn coverage(&self, tier: Tier, total: &Ctx) -> Map<String, Value> {
        let progs = programs(tier);
        let rule = format!(
            "{} programs (VM main loop: straight line, loop, fork; CALLDATACOPY / CODECOPY / EXTCODECOPY / RETURNDATACOPY with sizes \
             0, 1, 32, 33, 320, limit+1; CALL return data with 3 sizes; a 12-slot idiom program; the shipped PackedEncodings and \
             SimpleContract) x poll intervals {:?}. For each (program, interval) the number of polls P of an uninterrupted run is \
             measured (twice, must agree; result must equal the unmonitored result) and then EVERY poll index k = 0..=P is used as the \
             point from which the watchdog answers stop{}, in strict and in permissive error mode: the result must be a stopped-by-watchdog error, never a layout, within a \
             bounded number of further polls, and the VM stage run on its own must fail with a stopped-by-watchdog error too. Separately each stage (VM, lift, assign_vars, infer, unify + layout) is driven with its \
             own counting watchdog and its poll count is compared with independently measured work. non-trivial = every interruption \
             point and every stage measurement with work > interval; distinct by (program, interval, k | stage)",
            progs.len(),
            INTERVALS,
            if tier.thorough() { "" } else { " (SimpleContract: every k <= 200, then every 7th)" }
        );
        exploration_coverage(
            total,
            total.get("interrupted_runs") + total.get("baseline_runs") + total.get("frequency_runs"),
            total.distinct_count("nontrivial"),
            &rule,
            tier.thorough(),
        )
    }
    fn assumptions(&self, _tier: Tier) -> Vec<String> {
        vec![
            "all runs use the canonical iteration order (hooks): with natural hash order the number of polls of one run varies, so a poll index only denotes a point of the execution once the order is owned".into(),
            "exact phase of a poll (counter % k == 0 vs k-1) of a loop whose counter lives for the whole stage, error location and extra polls are don't-cares; the VM's polls are bounded from below by (instructions + all copy words) / interval, so copy loops, which restart their count at every instruction, have to poll on entry or carry the count over; poll intervals between 8 and 99 and above 1000 are not run".into(),
        ]
    }
    fn replay(&self, replay: &Value) -> bool {
        let c = &replay["case"];
        let code = unhex(c["bytes"].as_str().unwrap());
        let interval = c["interval"].as_u64().unwrap() as usize;
        println!("program {} interval {interval}", c["program"]);
        let r = if let Some(k) = c["stop_at"].as_u64() {
            check_stop_at(&code, interval, k)
        } else if c["mode"] == "frequency" {
            check_frequency(&code, interval).map(|_| ())
        } else {
            let (o, _) = baseline(&code, interval);
            let plain = analyze(&code, sle::vm::Config::default(), &Vec::new(), lazy());
            if o.canon() != plain.canon() {
                Err(Verdict {
                    key: "monitored-differs".into(),
                    what: format!("{} vs {}", o.canon(), plain.canon()),
                })
            } else {
                Ok(())
            }
        };
        match r {
            Ok(()) => {
                println!("observed: conforms");
                false
            }
            Err(v) => {
                println!("observed: {}: {}", v.key, v.what);
                true
            }
        }
    }
}
