//! Driving `unification::unify` directly on a hand-built judgement set (shared by C14 and C15).

use crate::obs::{with_controller, CountingWatchdog, Plan};
use crate::util::to_ethnum;
use crate::u256::U;
use std::collections::BTreeMap;
use storage_layout_extractor as sle;
use sle::tc::expression::{Span, TypeExpression as TE, WordUse};
use sle::tc::state::type_variable::TypeVariable;
use sle::tc::state::TypeCheckerState;
use sle::tc::unification::unify;
use sle::verif_hooks::OrderPoint;
use sle::vm::value::{Provenance, RSV};

/// A judgement over variable indices (not yet bound to a state).
#[derive(Clone, Debug, PartialEq, Eq, Hash, PartialOrd, Ord)]
pub enum J {
    Any,
    Bytes,
    Equal(usize),
    Word(Option<usize>, u8), // usage index into USAGES
    Mapping(usize, usize),
    DynArray(usize),
    FixedArray(usize, u64),
    Packed(Vec<(usize, usize, usize)>), // (var, offset, size)
}

pub const USAGES: [WordUse; 8] = [
    WordUse::Bytes,
    WordUse::Numeric,
    WordUse::UnsignedNumeric,
    WordUse::SignedNumeric,
    WordUse::Bool,
    WordUse::Address,
    WordUse::Selector,
    WordUse::Function,
];

pub fn usage_index(u: WordUse) -> u8 {
    USAGES.iter().position(|x| *x == u).unwrap() as u8
}

pub fn to_te(j: &J, vars: &[TypeVariable]) -> TE {
    match j {
        J::Any => TE::Any,
        J::Bytes => TE::Bytes,
        J::Equal(i) => TE::eq(vars[*i]),
        J::Word(w, u) => TE::word(*w, USAGES[*u as usize]),
        J::Mapping(k, v) => TE::mapping(vars[*k], vars[*v]),
        J::DynArray(e) => TE::dyn_array(vars[*e]),
        J::FixedArray(e, n) => TE::FixedArray {
            element: vars[*e],
            length: to_ethnum(U::from_u64(*n)),
        },
        J::Packed(spans) => TE::packed_of(spans.iter().map(|(v, o, s)| Span::new(vars[*v], *o, *s)).collect::<Vec<_>>()),
    }
}

#[derive(Clone, Debug)]
pub struct Resolved {
    /// resolved expression per original variable (None = no expression at all)
    pub types: Vec<Vec<TE>>,
    /// class representative per original variable
    pub roots: Vec<TypeVariable>,
    pub vars: Vec<TypeVariable>,
    /// every variable known to the state after unification with its data
    pub all: BTreeMap<usize, (TypeVariable, Vec<TE>)>,
    /// variable index -> index of its class representative, for every variable
    pub classes: BTreeMap<usize, usize>,
}

pub fn ix(v: &TypeVariable) -> usize {
    sle::data::vector_map::ToUniqueIndex::index(v)
}

impl Resolved {
    pub fn same(&self, a: &TypeVariable, b: &TypeVariable) -> bool {
        self.classes.get(&ix(a)).is_some() && self.classes.get(&ix(a)) == self.classes.get(&ix(b))
    }
}

#[derive(Debug)]
pub enum Outcome {
    Done(Resolved),
    Panic(String),
    OverBudget,
    Error(String),
    /// not evaluated: this worker has already seen several unifications that do not end, and each of those costs
    /// seconds and gigabytes before its budget stops it; the run fails anyway, the remaining sets are left alone
    Skipped,
}

thread_local! {
    static OVER_BUDGET_SEEN: std::cell::Cell<u32> = const { std::cell::Cell::new(0) };
}
const OVER_BUDGET_TOLERATED: u32 = 6;

pub const BUDGET: u64 = 5_000;

/// Builds a fresh state with `n` opaque values, adds the judgements and runs unification under `plan`.
pub fn run(n: usize, judgements: &[(usize, J)], plan: &Plan) -> (Outcome, Vec<OrderPoint>) {
    if OVER_BUDGET_SEEN.with(|c| c.get()) > OVER_BUDGET_TOLERATED {
        return (Outcome::Skipped, Vec::new());
    }
    let (r, ctl) = with_controller(plan, || {
        let mut state = TypeCheckerState::empty();
        let vars: Vec<TypeVariable> = (0..n).map(|_| state.register(RSV::new_value(0, Provenance::Synthetic))).collect();
        for (v, j) in judgements {
            state.infer(vars[*v], to_te(j, &vars));
        }
        // the budget of the small sets, scaled for sets over many variables (rounds x classes grows with the square)
        let scale = (n as u64 / 15).max(1);
        let w = CountingWatchdog::with_deadline(1, Some(BUDGET * scale * scale), 3 + n as u64 / 20);
        let dw: sle::watchdog::DynWatchdog = w.clone();
        match unify(&mut state, &dw) {
            Ok(()) => {}
            Err(e) => {
                let s = format!("{e:?}");
                return if s.contains("StoppedByWatchdog") {
                    OVER_BUDGET_SEEN.with(|c| c.set(c.get() + 1));
                    Outcome::OverBudget
                } else {
                    Outcome::Error(s)
                };
            }
        }
        let all_vars = state.variables();
        let forest = state.result();
        let mut all = BTreeMap::new();
        let mut classes = BTreeMap::new();
        for v in &all_vars {
            let data: Vec<TE> = forest.get_data(v).map(|s| s.iter().cloned().collect()).unwrap_or_default();
            all.insert(ix(v), (*v, data));
            classes.insert(ix(v), ix(&forest.find(v)));
        }
        let types = vars.iter().map(|v| forest.get_data(v).map(|s| s.iter().cloned().collect()).unwrap_or_default()).collect();
        let roots = vars.iter().map(|v| forest.find(v)).collect();
        Outcome::Done(Resolved {
            types,
            roots,
            vars,
            all,
            classes,
        })
    });
    let log = ctl.log().to_vec();
    match r {
        Ok(o) => (o, log),
        Err(p) => (Outcome::Panic(p), log),
    }
}

pub fn show(j: &J) -> String {
    match j {
        J::Word(w, u) => format!("Word({},{:?})", w.map(|x| x.to_string()).unwrap_or("?".into()), USAGES[*u as usize]),
        other => format!("{other:?}"),
    }
}

pub fn show_set(js: &[(usize, J)]) -> String {
    js.iter().map(|(v, j)| format!("v{v}: {}", show(j))).collect::<Vec<_>>().join(", ")
}

pub fn set_json(js: &[(usize, J)]) -> serde_json::Value {
    serde_json::json!(js.iter().map(|(v, j)| serde_json::json!({"var": v, "j": j_json(j)})).collect::<Vec<_>>())
}

fn j_json(j: &J) -> serde_json::Value {
    use serde_json::json;
    match j {
        J::Any => json!("any"),
        J::Bytes => json!("bytes"),
        J::Equal(i) => json!({"equal": i}),
        J::Word(w, u) => json!({"word": [w, u]}),
        J::Mapping(k, v) => json!({"mapping": [k, v]}),
        J::DynArray(e) => json!({"dyn_array": e}),
        J::FixedArray(e, n) => json!({"fixed_array": [e, n]}),
        J::Packed(s) => json!({"packed": s}),
    }
}

pub fn set_from_json(v: &serde_json::Value) -> Vec<(usize, J)> {
    v.as_array()
        .unwrap()
        .iter()
        .map(|e| {
            let var = e["var"].as_u64().unwrap() as usize;
            let j = &e["j"];
            let u = |x: &serde_json::Value| x.as_u64().unwrap() as usize;
            let jj = if j == "any" {
                J::Any
            } else if j == "bytes" {
                J::Bytes
            } else if let Some(i) = j.get("equal") {
                J::Equal(u(i))
            } else if let Some(w) = j.get("word") {
                J::Word(w[0].as_u64().map(|x| x as usize), w[1].as_u64().unwrap() as u8)
            } else if let Some(m) = j.get("mapping") {
                J::Mapping(u(&m[0]), u(&m[1]))
            } else if let Some(d) = j.get("dyn_array") {
                J::DynArray(u(d))
            } else if let Some(f) = j.get("fixed_array") {
                J::FixedArray(u(&f[0]), f[1].as_u64().unwrap())
            } else {
                J::Packed(j["packed"].as_array().unwrap().iter().map(|s| (u(&s[0]), u(&s[1]), u(&s[2]))).collect())
            };
            (var, jj)
        })
        .collect()
}
