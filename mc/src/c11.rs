//! C11 — a slot's reported type depends only on the code that touches that slot (relational: composition behind
//! a dispatcher and consistent renumbering of slot constants).

use crate::asm::{o, op, p, pu, Tok};
use crate::c04::representative_kinds;
use crate::idioms::*;
use crate::infra::*;
use crate::obs::{analyze, lazy, slot_canon, Class};
use crate::u256::U;
use crate::util::{from_ethnum, hex};
use serde_json::{json, Map, Value};
use std::collections::BTreeSet;
use storage_layout_extractor as sle;

/// A code fragment with an abstract slot.
#[derive(Clone, Debug, PartialEq, Eq, Hash)]
pub enum Frag {
    Idiom(Kind, Mode, usize),
    /// hand-written multi-evidence fragments
    Evidence(usize),
    /// (environment opcode, variant): raw store / narrow mask / signed compare
    Leaf(u16, usize),
}

const EVIDENCE: usize = 14;

/// Environment leaves: code fragments that use the same leaf must still not influence each other's slots.
const LEAVES: [u8; 17] = [
    0x30, 0x32, 0x33, 0x34, 0x3a, 0x41, 0x42, 0x43, 0x44, 0x45, 0x46, 0x47, 0x48, 0x5a, 0x36, 0x3d, 0x59,
];

/// Constants that several fragments use as plain values (never as slot numbers).
const SHARED_CONSTANTS: [u64; 3] = [1, 0x2a, 0xdead_beef];

fn leaf_fragment(leaf: u16, variant: usize, s: U) -> Vec<Vec<Tok>> {
    // below 256: an environment opcode; from 256 on: one of the shared constants
    let l = if leaf < 256 { o(leaf as u8) } else { p(SHARED_CONSTANTS[leaf as usize - 256]) };
    match variant {
        // the raw value is stored
        0 => vec![vec![l, pu(s), o(op::SSTORE), o(op::STOP)]],
        // one byte of it is stored
        1 => vec![vec![p(0xff), l, o(op::AND), pu(s), o(op::SSTORE), o(op::STOP)]],
        // it is compared as a signed number and the flag is stored
        2 => vec![vec![p(0), l, o(op::SLT), pu(s), o(op::SSTORE), o(op::STOP)]],
        // it is used as an account address and the balance is stored
        _ => vec![vec![l, o(op::BALANCE), pu(s), o(op::SSTORE), o(op::STOP)]],
    }
}

fn evidence(i: usize, s: U) -> Vec<Vec<Tok>> {
    let ret = || vec![p(0), o(op::MSTORE), p(0x20), p(0), o(op::RETURN)];
    match i {
        0 => {
            // address use and zero test of the same slot
            let mut a = vec![pu(s), o(op::SLOAD), pu(addr_mask()), o(op::AND), o(op::BALANCE)];
            a.extend(ret());
            let mut b = vec![pu(s), o(op::SLOAD), o(op::ISZERO)];
            b.extend(ret());
            vec![a, b]
        }
        1 => {
            // caller stored, later compared as signed
            let a = vec![o(op::CALLER), pu(s), o(op::SSTORE), o(op::STOP)];
            let mut b = vec![p(0), pu(s), o(op::SLOAD), o(op::SLT)];
            b.extend(ret());
            vec![a, b]
        }
        2 => {
            // counter
            vec![vec![pu(s), o(op::SLOAD), p(1), o(op::ADD), pu(s), o(op::SSTORE), o(op::STOP)]]
        }
        3 => {
            // boolean flag: read-mask-write of one byte plus a zero test
            let mut a = vec![pu(s), o(op::SLOAD), p(0xff), o(op::AND), o(op::ISZERO)];
            a.extend(ret());
            let b = vec![
                p(4),
                o(op::CALLDATALOAD),
                o(op::ISZERO),
                o(op::ISZERO),
                pu(U::from_u64(0xff).not()),
                pu(s),
                o(op::SLOAD),
                o(op::AND),
                o(op::OR),
                pu(s),
                o(op::SSTORE),
                o(op::STOP),
            ];
            vec![a, b]
        }
        4 => {
            // value used as a length / memory offset and as a call target
            let mut a = vec![pu(s), o(op::SLOAD), o(op::DUP1), p(0x40), o(op::MSTORE), o(op::EXTCODESIZE)];
            a.extend(ret());
            vec![a]
        }
        6 => {
            // legacy `throw`: the path is aborted by a jump to a constant invalid target while a loaded value is still on
            // the stack (only permissive mode gets past the error)
            vec![vec![o(op::TIMESTAMP), pu(s), o(op::SSTORE), pu(s), o(op::SLOAD), p(2), o(op::JUMP)]]
        }
        7 => {
            // an internal setter: stores the word it finds on the stack (behind the dispatcher: the selector word)
            vec![vec![KEEP_SELECTOR, pu(s), o(op::SSTORE), o(op::STOP)]]
        }
        8 => {
            // an address is loaded and the path then runs into INVALID with the value still on the stack
            vec![vec![pu(s), o(op::SLOAD), pu(addr_mask()), o(op::AND), o(op::DUP1), o(op::BALANCE), o(0xfe)]]
        }
        11 => {
            // a mapping element with a small CONSTANT key (m[5] = x; y = m[5]): the key is a small number, the base slot may not be
            let key = |k: u64| vec![p(k), p(0), o(op::MSTORE), pu(s), p(0x20), o(op::MSTORE), p(0x40), p(0), o(op::SHA3)];
            let mut w = vec![p(4), o(op::CALLDATALOAD)];
            w.extend(key(5));
            w.extend([o(op::SSTORE), o(op::STOP)]);
            let mut r = key(5);
            r.push(o(op::SLOAD));
            r.extend(ret());
            vec![w, r]
        }
        12 => {
            // a nested mapping whose outer key is the constant 0 and whose inner key is the caller
            let mut r = vec![p(0), p(0), o(op::MSTORE), pu(s), p(0x20), o(op::MSTORE), p(0x40), p(0), o(op::SHA3)];
            r.extend([p(0x20), o(op::MSTORE), o(op::CALLER), p(0), o(op::MSTORE), p(0x40), p(0), o(op::SHA3), o(op::SLOAD)]);
            r.extend(ret());
            vec![r]
        }
        13 => {
            // a dynamic array accessed at constant indices (a[0] and a[3])
            let mut a = vec![p(4), o(op::CALLDATALOAD), pu(s), p(0), o(op::MSTORE), p(0x20), p(0), o(op::SHA3), o(op::SSTORE), o(op::STOP)];
            let mut b = vec![pu(s), p(0), o(op::MSTORE), p(0x20), p(0), o(op::SHA3), p(3), o(op::ADD), o(op::SLOAD)];
            b.extend(ret());
            a.truncate(a.len());
            vec![a, b]
        }
        9 => {
            // the top byte of the slot, masked once more with a wider mask (a nested sub-word that claims bits beyond 255)
            let mut a = vec![pu(s), o(op::SLOAD), p(0xf8), o(op::SHR), p(0xff), o(op::AND), pu(U::from_u64(0xffff)), o(op::AND)];
            a.extend(ret());
            vec![a]
        }
        10 => {
            // a two-byte field at the top of the slot read with DIV, then narrowed and widened again
            let mut a = vec![pu(U::pow2(240)), pu(s), o(op::SLOAD), o(op::DIV), pu(U::from_u64(0xffff)), o(op::AND), p(0xff), o(op::AND), pu(U::from_u64(0xffff_ffff)), o(op::AND)];
            a.extend(ret());
            vec![a]
        }
        _ => {
            // timestamp stored, selector-sized field read from the same slot
            let a = vec![o(op::TIMESTAMP), pu(s), o(op::SSTORE), o(op::STOP)];
            let mut b = vec![pu(s), o(op::SLOAD), p(0xe0), o(op::SHR)];
            b.extend(ret());
            vec![a, b]
        }
    }
}

impl Frag {
    pub fn branches(&self, slot: U) -> Vec<Vec<Tok>> {
        match self {
            Frag::Idiom(kind, mode, sp) => fragments(
                &Var {
                    slot,
                    kind: kind.clone(),
                },
                *mode,
                &SPELLINGS[*sp],
            ),
            Frag::Evidence(i) => evidence(*i, slot),
            Frag::Leaf(l, v) => leaf_fragment(*l, *v, slot),
        }
    }
}

pub fn family(tier: Tier) -> Vec<Frag> {
    let mut v = Vec::new();
    let spellings: Vec<usize> = if tier.thorough() { vec![0, 1, 2, 3] } else { vec![0, 1] };
    for k in representative_kinds() {
        for m in [Mode::Read, Mode::Write, Mode::Both] {
            for sp in &spellings {
                v.push(Frag::Idiom(k.clone(), m, *sp));
            }
        }
    }
    if tier.thorough() {
        for k in crate::c04::basic_kinds().into_iter().skip(3).step_by(5) {
            v.push(Frag::Idiom(k, Mode::Both, 0));
        }
    }
    for i in 0..EVIDENCE {
        v.push(Frag::Evidence(i));
    }
    for l in LEAVES {
        for variant in 0..4 {
            v.push(Frag::Leaf(l as u16, variant));
        }
    }
    for c in 0..SHARED_CONSTANTS.len() {
        for variant in 0..4 {
            v.push(Frag::Leaf(256 + c as u16, variant));
        }
    }
    v
}

fn entries(code: &[u8], permissive: bool) -> Option<BTreeSet<(U, String)>> {
    entries_cfg(code, sle::vm::Config::default().with_permissive_errors(permissive))
}

fn entries_cfg(code: &[u8], cfg: sle::vm::Config) -> Option<BTreeSet<(U, String)>> {
    let o = analyze(code, cfg, &Vec::new(), lazy());
    if o.class != Class::Ok {
        return None;
    }
    Some(
        o.layout
            .as_ref()
            .unwrap()
            .slots()
            .iter()
            .map(|s| {
                let c = slot_canon(s);
                // strip the index from the canonical rendering: "<index>@<offset>:<type>"
                let rest = c.splitn(2, '@').nth(1).unwrap_or("").to_string();
                (from_ethnum(s.index.0), rest)
            })
            .collect(),
    )
}

pub struct Verdict {
    pub key: String,
    pub what: String,
}

fn show(e: &BTreeSet<(U, String)>) -> String {
    e.iter().map(|(i, t)| format!("0x{}@{t}", i.hex_min())).collect::<Vec<_>>().join("; ")
}

pub fn check_pair(a: &Frag, sa: U, b: &Frag, sb: U, d: Dispatcher) -> Result<Option<usize>, Verdict> {
    let mut best = None;
    for permissive in [false, true] {
        match check_pair_mode(a, sa, b, sb, d, permissive) {
            Ok(Some(n)) => best = Some(best.unwrap_or(0usize).max(n)),
            Ok(None) => {}
            Err(v) => {
                return Err(Verdict {
                    key: if permissive { format!("{}:permissive", v.key) } else { v.key },
                    what: if permissive { format!("{} (permissive error mode)", v.what) } else { v.what },
                })
            }
        }
    }
    Ok(best)
}

fn check_pair_mode(a: &Frag, sa: U, b: &Frag, sb: U, d: Dispatcher, permissive: bool) -> Result<Option<usize>, Verdict> {
    check_pair_cfg(a, sa, b, sb, d, sle::vm::Config::default().with_permissive_errors(permissive))
}

/// The composition relation under one VM configuration; only compared when all three analyses succeed (strict mode:
/// a limit that cuts a path short is an error, so a success is a complete exploration).
pub fn check_pair_cfg(a: &Frag, sa: U, b: &Frag, sb: U, d: Dispatcher, cfg: sle::vm::Config) -> Result<Option<usize>, Verdict> {
    check_pair_padded(a, sa, b, sb, d, cfg, 0)
}

/// `padding` empty functions (bodies that stop at once) stand between the two fragments in the combined program.
pub fn check_pair_padded(a: &Frag, sa: U, b: &Frag, sb: U, d: Dispatcher, cfg: sle::vm::Config, padding: usize) -> Result<Option<usize>, Verdict> {
    let ba = a.branches(sa);
    let bb = b.branches(sb);
    let mut both = ba.clone();
    for _ in 0..padding {
        both.push(vec![Tok::Op(crate::asm::op::STOP)]);
    }
    both.extend(bb.clone());
    let (Some(eab), Some(ea), Some(eb)) = (entries_cfg(&program(&both, d), cfg.clone()), entries_cfg(&program(&ba, d), cfg.clone()), entries_cfg(&program(&bb, d), cfg.clone())) else {
        return Ok(None);
    };
    // a fragment only touches its own slot, so alone it can only say something about that slot
    for (e, own, which) in [(&ea, sa, "first"), (&eb, sb, "second")] {
        if let Some((i, t)) = e.iter().find(|(i, _)| *i != own) {
            return Err(Verdict {
                key: format!("foreign-slot:{which}-fragment"),
                what: format!("the {which} fragment only touches slot 0x{} but its layout has the entry 0x{}@{t}", own.hex_min(), i.hex_min()),
            });
        }
    }
    let union: BTreeSet<(U, String)> = ea.union(&eb).cloned().collect();
    if union != eab {
        let changed: Vec<U> = union.symmetric_difference(&eab).map(|(i, _)| *i).collect();
        let which = if changed.iter().all(|i| *i == sa) {
            "first-fragment-changed"
        } else if changed.iter().all(|i| *i == sb) {
            "second-fragment-changed"
        } else {
            "both-changed"
        };
        return Err(Verdict {
            key: format!("composition:{which}"),
            what: format!(
                "layout(A) = [{}], layout(B) = [{}], but layout(dispatcher(A, B)) = [{}]",
                show(&ea),
                show(&eb),
                show(&eab)
            ),
        });
    }
    Ok(Some(eab.len()))
}

pub fn renumber_targets() -> Vec<U> {
    vec![
        U::ZERO,
        U::ONE,
        U::from_u64(2),
        U::from_u64(77),
        U::pow2(128).add(U::from_u64(5)),
        U::pow2(255),
        // constants whose bytes read as text (a space, and "vault.stakes" padded with zeros): the proxy-slot pass
        // looks at the byte pattern of hashed constants
        U::pow2(253),
        U::from_be_slice(b"vault.stakes\0\0\0\0\0\0\0\0\0\0\0\0\0\0\0\0\0\0\0\0"),
    ]
}

pub fn check_renumber(a: &Frag, b: &Frag, from: (U, U), to: (U, U), d: Dispatcher) -> Result<Option<usize>, Verdict> {
    let build = |s: (U, U)| {
        let mut br = a.branches(s.0);
        br.extend(b.branches(s.1));
        program(&br, d)
    };
    let (Some(e1), Some(e2)) = (entries(&build(from), false), entries(&build(to), false)) else {
        return Ok(None);
    };
    let rho = |i: U| {
        if i == from.0 {
            to.0
        } else if i == from.1 {
            to.1
        } else {
            i
        }
    };
    let mapped: BTreeSet<(U, String)> = e1.iter().map(|(i, t)| (rho(*i), t.clone())).collect();
    if mapped != e2 {
        return Err(Verdict {
            key: "renumbering".into(),
            what: format!(
                "with slots (0x{}, 0x{}) the layout is [{}]; renumbered to (0x{}, 0x{}) it is [{}]",
                from.0.hex_min(),
                from.1.hex_min(),
                show(&e1),
                to.0.hex_min(),
                to.1.hex_min(),
                show(&e2)
            ),
        });
    }
    Ok(Some(e2.len()))
}

const DISPATCHERS: [Dispatcher; 4] = [Dispatcher::Selector, Dispatcher::Reversed, Dispatcher::Chained, Dispatcher::LiteralGuards];

pub struct C11;

impl Check for C11 {
    fn id(&self) -> &'static str {
        "C11"
    }
    fn level(&self) -> &'static str {
        "exploration"
    }
    fn chunks(&self, tier: Tier) -> usize {
        family(tier).len()
    }
    fn run_chunk(&self, tier: Tier, chunk: usize, ctx: &mut Ctx) {
        let fam = family(tier);
        let a = &fam[chunk];
        let slot_pairs = [(U::ZERO, U::ONE), (U::pow2(200), U::from_u64(5))];
        for (bi, b) in fam.iter().enumerate() {
            for d in DISPATCHERS {
                for (sa, sb) in slot_pairs {
                    let desc = json!({"a": format!("{a:?}"), "b": format!("{b:?}"), "slots": [sa.hex_min(), sb.hex_min()], "dispatcher": format!("{d:?}"), "ia": chunk, "ib": bi, "mode": "composition"});
                    ctx.case(|| desc.clone());
                    ctx.count("evaluations", 1);
                    ctx.count("compositions", 1);
                    match check_pair(a, sa, b, sb, d) {
                        Ok(Some(n)) => {
                            ctx.distinct("nontrivial", crate::util::h64(&desc.to_string()));
                            if n >= 3 {
                                ctx.sample(|| {
                                    let mut j = desc.clone();
                                    j["verdict"] = json!("layout(D(A,B)) = layout(A) u layout(B)");
                                    j
                                });
                            }
                        }
                        Ok(None) => ctx.count("no_layout", 1),
                        Err(v) => ctx.violation(v.key, v.what, desc),
                    }
                }
            }
            // the same relation at every gas limit up to one that no path reaches (strict mode: the three analyses either
            // all explore everything or some of them fail), for a slice of the pairs
            if chunk % 8 == 0 && bi < 2 {
                for d in [Dispatcher::Selector, Dispatcher::LiteralGuards] {
                    let (sa, sb) = slot_pairs[0];
                    for (gas, padding) in (1..=400usize).flat_map(|g| [(g, 0usize), (g, 6)]) {
                        let desc = json!({"a": format!("{a:?}"), "b": format!("{b:?}"), "slots": [sa.hex_min(), sb.hex_min()], "dispatcher": format!("{d:?}"), "ia": chunk, "ib": bi, "mode": "composition", "gas_limit": gas, "padding": padding});
                        ctx.case(|| desc.clone());
                        ctx.count("evaluations", 1);
                        ctx.count("compositions_under_a_gas_limit", 1);
                        match check_pair_padded(a, sa, b, sb, d, sle::vm::Config::default().with_gas_limit(gas), padding) {
                            Ok(Some(_)) => ctx.distinct("nontrivial", crate::util::h64(&desc.to_string())),
                            Ok(None) => ctx.count("no_layout", 1),
                            Err(v) => ctx.violation(format!("{}:gas-limit", v.key), format!("{} (gas limit {gas})", v.what), desc),
                        }
                    }
                }
            }
            // renumbering of the two-fragment program
            if (chunk + bi) % if tier.thorough() { 1 } else { 3 } == 0 {
                let t = renumber_targets();
                for (i, t1) in t.iter().enumerate() {
                    for (j, t2) in t.iter().enumerate() {
                        if i == j {
                            continue;
                        }
                        // documented special case: a hash over constants only whose slot constant reads as text is a
                        // named proxy slot and is folded to a constant, so such fragments are not moved to text-like slots
                        let text_like = |k: usize| k >= 6;
                        let all_constant_hash = |f: &Frag| matches!(f, Frag::Evidence(11 | 12 | 13));
                        if (text_like(i) && all_constant_hash(a)) || (text_like(j) && all_constant_hash(b)) {
                            continue;
                        }
                        let from = (U::from_u64(3), U::from_u64(4));
                        let desc = json!({"a": format!("{a:?}"), "b": format!("{b:?}"), "from": [from.0.hex_min(), from.1.hex_min()], "to": [t1.hex_min(), t2.hex_min()], "ia": chunk, "ib": bi, "mode": "renumbering"});
                        ctx.case(|| desc.clone());
                        ctx.count("evaluations", 1);
                        ctx.count("renumberings", 1);
                        match check_renumber(a, b, from, (*t1, *t2), Dispatcher::Selector) {
                            Ok(Some(_)) => ctx.distinct("nontrivial", crate::util::h64(&desc.to_string())),
                            Ok(None) => ctx.count("no_layout", 1),
                            Err(v) => ctx.violation(v.key, v.what, desc),
                        }
                    }
                }
            }
        }
    }
    fn coverage(&self, tier: Tier, total: &Ctx) -> Map<String, Value> {
        let n = family(tier).len();
        let rule = format!(
            "fragment family of {n} single-variable code fragments with an abstract slot (7 representative idiom kinds x 3 access modes \
             x {} spellings{}, 4 uses (raw store, one-byte mask, signed compare, account address) of each of 17 environment opcodes and of 3 shared constants, 14 hand-written multi-evidence fragments: address use + zero test, caller stored + signed compare, counter, \
             one-byte flag, length / call target, timestamp + selector-sized field, a path aborted by a jump to an invalid constant target or by INVALID with a \
             loaded value still on the stack, an internal setter that stores the word it finds on the stack, two reads of a field at the top of the slot that is masked again with a wider mask, a mapping element with a small constant key, a nested mapping with a constant outer key, a dynamic array at constant indices), each composition in strict and in permissive error mode. A slice of the pairs also under every gas limit 1..400, with 0 and 6 empty functions between the two fragments (strict mode, compared whenever all three analyses succeed). ALL ordered pairs (A, B) x 4 dispatcher shapes (selector compare, reversed, chained, literal conditions) \
             (selector compare, reversed layout, two chained conditional jumps) x 2 slot assignments: layout(D(A,B)) must equal \
             layout(D(A)) u layout(D(B)) as entry sets, and layout(D(A)) must only have entries at A's slot. Renumbering: two-fragment programs x all 56 injective maps of their slots \
             into {{0, 1, 2, 77, 2^128+5, 2^255, 2^253, bytes32(\"vault.stakes\")}} (changes PUSH widths, so programs are re-assembled): layout(rho(P)) = rho(layout(P)). \
             non-trivial = every comparison that produced layouts; distinct by (fragments, slots, dispatcher)",
            if tier.thorough() { 4 } else { 2 },
            if tier.thorough() { ", 12 further mapping kinds" } else { "" }
        );
        exploration_coverage(total, total.get("evaluations"), total.distinct_count("nontrivial"), &rule, true)
    }
    fn assumptions(&self, _tier: Tier) -> Vec<String> {
        vec![
            "entries are compared by (slot, offset, type) with conflict payloads erased".into(),
            "slot constants never coincide with keccak(n), n < 10000; constants that read as text are used as renumbering targets except for fragments whose hash is over constants only (the documented named-proxy-slot case)".into(),
        ]
    }
    fn replay(&self, replay: &Value) -> bool {
        let c = &replay["case"];
        // the fragment family is deterministic, so indices identify the fragments
        let tier = if replay["tier"] == "thorough" { Tier::Thorough } else { Tier::Quick };
        let fam = family(tier);
        let a = &fam[c["ia"].as_u64().unwrap() as usize];
        let b = &fam[c["ib"].as_u64().unwrap() as usize];
        let h = |v: &Value| U::from_hex(v.as_str().unwrap()).unwrap();
        let r = if c["mode"] == "composition" {
            let d = DISPATCHERS.into_iter().find(|d| format!("{d:?}") == c["dispatcher"].as_str().unwrap()).unwrap();
            let (sa, sb) = (h(&c["slots"][0]), h(&c["slots"][1]));
            let mut both = a.branches(sa);
            both.extend(b.branches(sb));
            println!("A = {a:?} at 0x{}, B = {b:?} at 0x{}\ncombined program: {}", sa.hex_min(), sb.hex_min(), hex(&program(&both, d)));
            match c.get("gas_limit").and_then(|g| g.as_u64()) {
                Some(g) => {
                    println!("gas limit: {g}");
                    check_pair_padded(a, sa, b, sb, d, sle::vm::Config::default().with_gas_limit(g as usize), c["padding"].as_u64().unwrap_or(0) as usize).map(|_| ())
                }
                None => check_pair(a, sa, b, sb, d).map(|_| ()),
            }
        } else {
            check_renumber(a, b, (h(&c["from"][0]), h(&c["from"][1])), (h(&c["to"][0]), h(&c["to"][1])), Dispatcher::Selector).map(|_| ())
        };
        match r {
            Ok(()) => {
                println!("observed: the relation holds");
                false
            }
            Err(v) => {
                println!("observed: {}: {}", v.key, v.what);
                true
            }
        }
    }
}
