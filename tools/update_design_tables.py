#!/usr/bin/env python3
"""Refreshes the generated parts of DESIGN.md section 12 (seed table, round summary, matrix summary)."""
import json, glob, os, re, subprocess, collections
D = '/verif/DESIGN.md'
s = open(D).read()
def put(tag, text):
    global s
    a, b = f'<!-- {tag}:begin -->', f'<!-- {tag}:end -->'
    i, j = s.index(a) + len(a), s.index(b)
    s = s[:i] + '\n' + text.rstrip('\n') + '\n' + s[j:]
table = subprocess.run(['python3', '/verif/tools/seed_table.py'], capture_output=True, text=True).stdout
put('seed-table', table)
rounds = collections.defaultdict(lambda: collections.Counter())
for d in sorted(glob.glob('/verif/seeded/*/')):
    m = json.load(open(d + 'meta.json'))
    r = m.get('round', 1)
    fr = m.get('first_run', '')
    own = m.get('property') in m.get('detected_by', [])
    if 'missed by all' in fr or fr.startswith('missed as first delivered'):
        k = 'missed by every check'
    elif 'itself missed it' in fr or not own:
        k = 'caught only by another property\'s check'
    else:
        k = 'caught by its own check'
    rounds[r][k] += 1
lines = ['| round | changes | caught by its own check at first delivery | caught only by another property\'s check | missed by every check | detected after strengthening |', '|---|---|---|---|---|---|']
tot = collections.Counter()
for r in sorted(rounds):
    c = rounds[r]; n = sum(c.values()); tot.update(c)
    lines.append(f"| {r} | {n} | {c['caught by its own check']} | {c['caught only by another property' + chr(39) + 's check']} | {c['missed by every check']} | {n} |")
n = sum(tot.values())
lines.append(f"| all | {n} | {tot['caught by its own check']} | {tot['caught only by another property' + chr(39) + 's check']} | {tot['missed by every check']} | {n} |")
put('seed-summary', '\n'.join(lines))
M = '/verif/tools/detection_matrix.md'
if os.path.exists(M):
    rows = [l for l in open(M) if l.startswith('| ') and not l.startswith('| change') and not l.startswith('|---')]
    kinds = collections.Counter()
    odd = []
    for l in rows:
        c = [x.strip() for x in l.strip().strip('|').split('|')]
        kind, verdict = c[1], c[-1]
        kinds[(kind, verdict.split(' (')[0][:60])] += 1
        if 'MISSED' in verdict or 'FALSE' in verdict or 'SKIPPED' in verdict:
            odd.append(l.strip())
    head = open(M).readline().strip().lstrip('# ')
    txt = [f"Last run: {head}. " + '; '.join(f"{k[0]}: {v} x {k[1]}" for k, v in sorted(kinds.items())) + '.']
    if odd:
        txt.append('Rows that are not `detected` / `silent`:')
        txt += ['    ' + o[:300] for o in odd]
    put('matrix-summary', '\n'.join(txt))
open(D, 'w').write(s)
print('DESIGN.md section 12 refreshed')
