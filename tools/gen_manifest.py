#!/usr/bin/env python3
"""Regenerates /verif/MANIFEST.json from the table below (kept in one place so it is always valid)."""
import json, subprocess, sys

CHECKS = {
 # id: (level, engine, technique, text, note, design_ref)
 "C01": ("exploration", "E2-programs", "bounded exhaustive input enumeration through the whole pipeline under a panic guard and a process supervisor",
         "All byte strings of length 1-2 (3), all stack-pruned sequences up to length 4 (5) over 48 hostile tokens, every assignment of boundary constants to the operands of 28 multi-operand opcodes, 16 pipeline templates x B x B, every prefix and single-byte substitution of the smallest shipped contracts go through analyze() and through the staged API in up to 3 configurations, and up to 19 loop-free programs under every configuration whose five limits are each 1, 7, the default or usize::MAX in both error modes (2 048 configurations); panics are caught in-process, aborts and hangs are attributed to a case by re-running unfinished chunks one case at a time in a child process.",
         "inputs beyond ~40 bytes only through corpus prefixes; scale effects (native stack on 24 KiB contracts) not reached", "3/C01"),
 "C02": ("model_checking", "E4-schedule", "deviation-bounded exhaustive exploration of hash-iteration-order choices (controlled scheduler over the order-point hooks) on the real pipeline",
         "The only scheduler in this single-threaded library is hash iteration order. Every place where a hash collection becomes a sequence is a hooked choice point; for ~15 000 programs (all evidence sequences <= 4 (5) over 18 tokens, slot-self-referential and mutually recursive container programs, idiom programs, two shipped contracts, mutually recursive containers, string-shaped slots, 250 out-of-order packed layouts, a hash computed at run time next to the same hash written as a literal, one slot number reaching two or three accesses by different routes) and all judgement sets of 2..3 (4) judgements driven directly on the unifier, all plans with 0 and 1 deviating choice points (2 for short programs in the thorough tier) are executed and class + layout must equal the canonical run. Runs are deterministic and replayable (plan files).",
         "hooks must cover every order-sensitive point (DESIGN.md section 7); per-program schedule caps for the shipped contracts are reported", "3/C02"),
 "C03": ("exploration", "E2-programs", "bounded exhaustive program enumeration x configuration grid on the real VM, plus single-deviation schedule exploration for type-checker termination",
         "All control-flow token sequences up to length 6 (7) crossed with a grid of iteration {1,2,3} x fork {1,2,3} x gas {7,20,50,300,block} limits (two settings also in permissive mode) are executed by the real VM under a step-budget watchdog and every stored state is checked against the four stated bounds; all stack-safe storage read-mask-write sequences up to length 6 (7) are analysed under the canonical order and under every single deviation at the unification order points to decide termination of the whole pipeline; 280 programs with self-referential slot types, 16 pipeline templates with boundary constants, cyclic typing evidence of every joint period up to 60, and 836 chains in which each of 39 value-producing opcodes is fed its own result 6..24 (96) times (the bytes the analysis requests from a counting allocator must not multiply when the chain grows by six steps) must all finish.",
         "limits above 3 not crossed with the program space; halting decided by a poll budget (20 000 polls for <= 30-byte programs) plus the supervisor's wall-clock stall detection", "3/C03"),
 "C04": ("exploration", "E2-programs", "bounded exhaustive enumeration of ground-truth layouts compiled to solc-idiom bytecode",
         "Every single variable of every listed kind (incl. mappings of depth 1-4 over all key-kind vectors and all 496 (206 367 thorough) byte-boundary splits of a packed word) at 6 slots x 3 access modes x 4 spellings, a dynamic array with a pre-folded keccak(slot) at every slot 0..9999, contracts of 4, 7 and 12 variables with one dominant kind, and all ordered pairs (triples) of 7 representative kinds, are generated from a ground-truth layout, analysed by the real pipeline and the layout is compared with the ground truth.",
         "idiom templates transcribed from shipped solc output; all kinds and modes crossed for 1-2 (3) variables, 4-12 variables only with one dominant kind", "3/C04"),
 "C05": ("exploration", "E2-programs", "bounded exhaustive program enumeration with look-alike hashing; over-approximated attribution oracle",
         "All stack-safe sequences up to length 5 (6) over 26 tokens mixing look-alike keccak computations (consumed by logs, returns, calls, creates, reverts, re-hashing, comparisons, branches) with real storage accesses, and all mask-and-shift sequences up to length 4 (5) over 38 tokens behind a real load, with bytes that have no opcode (0x5c, 0x5d), dead jumps, a jump into the data of a cut-short push and keys whose hashed preimage is only partly constant (a text word next to a symbolic one): storage-free programs must give an empty layout and every slot of a mixed program must lie in the over-approximated closure of constants found in key sub-trees of executed storage accesses.",
         "attribution set is an over-approximation (check can only under-report); value-side lifting is a recorded known finding", "3/C05"),
 "C06": ("exploration", "E2-programs", "bounded exhaustive program enumeration with literal storage keys from a boundary set",
         "All token sequences up to length 4 (5) over literal-key reads/writes for 10 boundary keys plus control-flow and stack context tokens, crossed with tight exploration limits, value-size limits 1..6 and a never-stopping watchdog polled every 1, 2, 3, 7 iterations, every path ending (SELFDESTRUCT / RETURN / INVALID appended) and literal keys around keccak(n); whenever the tool executed such an access (and the reference EVM says it does not fault) and the analysis succeeds, the layout must contain an entry at exactly that 256-bit index.",
         "premise partly taken from the tool (executed offsets) so that exploration defects (C08) cannot raise a C06 alarm", "3/C06"),
 "C07": ("model_checking", "E2-programs", "bounded exhaustive program enumeration; reference EVM path enumeration validated path-by-path against the real VM's stored states",
         "For every all-constant, stack-safe, loop-free program of the stated families the reference EVM enumerates all forced-branch paths; the real VM's stored final states are evaluated by an independent evaluator and must match the reference paths as a multiset of (stack, memory words, per-key ordered write lists). This is translation validation of each explored path, exhaustively over the bounded program space. Also 36 programs of 255 .. 70 000 bytes reading CODESIZE and PC, 96 programs storing and loading memory at offsets up to the 123 170 words a block can pay for, and storage keys computed from constants (a computed key mixed with the literal spelling of the same slot is a recorded known finding).",
         "trusts ref_evm + evaluator + ref_u256; environment fixed to zero storage/memory; operands from the boundary set", "3/C07"),
 "C08": ("model_checking", "E2-programs", "bounded exhaustive program enumeration; reference control-flow graph validated against the real VM's executed offsets",
         "All token sequences up to length 5 (6 thorough) over 29 control-flow tokens covering every target kind named by the property (incl. the partial data of a trailing PUSH cut short by the end of the code), in strict and permissive error mode, plus 2 048 loops with a drifting jump target, 686 two-way dispatchers over 7 block endings and 2 490 (thorough: more) programs whose jump targets are computed from a PC read; the executed-offset set of the real VM is compared with a reference EVM reachability computation (subset always; equality for loop-free code on every offset except a JUMPDEST that only a JUMP lands on).",
         "trusts ref_evm; JUMPDEST offsets are don't-cares in the equality direction (documented behaviour of JUMP)", "3/C08"),
 "C17": ("model_checking", "E2-programs", "bounded exhaustive program enumeration x {strict, permissive}; reference EVM error events validated against both modes",
         "All token sequences up to length 5 (6 thorough) over 27 error-provoking tokens plus stack-overflow, looping and gas families (the gas family at every gas limit at which a verdict can change); the reference EVM predicts the (class, offset) error events of all paths and both modes of the real VM and of analyze() are compared with the prediction.",
         "trusts ref_evm; symbolic JUMP targets are don't-cares in strict mode", "3/C17"),
 "C09": ("exploration", "E1-flat", "bounded exhaustive enumeration of expression trees against a reference folder",
         "Every tree of the stated grammar (operators x boundary operand pairs; all trees to depth 3, wrapped and unwrapped) is folded by the real constant folder and compared structurally with a reference folder written on the harness's own tree type with independent 256-bit arithmetic; idempotence, size bookkeeping and totality are checked on each. Complete within the grammar, which contains every one-operator mistake (wrong constructor, wrong operand order, wrong boundary rule).",
         "trusts ref_u256 (cross-checked against Python big integers at setup) and the crate's PartialEq on values; says nothing about operands outside the boundary set", "3/C09"),
 "C11": ("exploration", "E2-programs", "exhaustive pairwise composition and renumbering of a fragment family (relational check on the real pipeline)",
         "All ordered pairs of a 133-fragment (thorough: 187) family (idioms, 17 environment leaves and 3 shared constants x 4 uses, 11 hand-written evidence fragments) x 4 dispatcher shapes (selector compare, reversed, chained, literal conditions) x 2 slot assignments x {strict, permissive} (and a slice of the pairs under every gas limit 1..400 with 0 and 6 empty functions in between) are analysed separately and combined, and two-fragment programs under all 30 injective slot renumberings: the combined layout must be the union, a fragment's own layout must only name its own slot, the renumbered layout must be the renumbered original.",
         "fragments come from the C04 generator plus hand-written multi-evidence fragments", "3/C11"),
 "C12": ("exploration", "E2-programs", "bounded exhaustive enumeration of mask-and-shift programs with boundary shift amounts; structural oracle on every returned layout",
         "All stack-safe sequences up to length 4 (5) over 37 mask / shift / divide / multiply tokens with shift amounts 0..2^64-1 16 pipeline templates x B x B the nested sub-word family (a field taken out of a field, ~41 000 programs), typed uses of a narrow field and width operands up to 65 535: every returned layout must be ordered by (slot, offset) with every entry starting and, when its width is known, ending inside the 256-bit slot.",
         "width table for types with a known width; residual nested-sub-word programs are a recorded known finding", "3/C12"),
 "C13": ("fault_enumeration", "E5-interruption", "exhaustive enumeration of interruption points (every poll index of every listed run) with a counting watchdog",
         "For 33 programs that spend their time in each polled loop x 6 poll intervals, the poll count P of an uninterrupted run is measured and every k in 0..=P is used as the point from which the watchdog answers stop; in strict and permissive error mode; the result must be a stopped-by-watchdog error and never a layout, and the VM stage on its own must fail with a stopped-by-watchdog error too. Stage-level poll counts are compared with independently measured work (unification: bounded below by an independent class count, above by the polled iterations at interval 1).",
         "runs use the canonical iteration order so that poll indices denote execution points; SimpleContract is stratified in the quick tier", "3/C13"),
 "C14": ("model_checking", "E3-history", "explicit enumeration of judgement-set states evaluated on the real unifier (canonical order + every single order deviation) in lock-step with a reference congruence closure",
         "All sets of up to 3 (4) judgements over a 3-variable universe and a 27-judgement alphabet (equalities, words, bytes, mappings / arrays incl. self-reference, packed encodings with empty, overlapping, unsorted, out-of-word and self-referential spans) are unified by the real code under a poll budget and every single deviation at the order points; termination, exactly one equality-free expression per variable, honoured equalities, no spurious equality and component unification are checked against a reference closure; plus a ring family of cyclic evidence with joint periods up to 60.",
         "3 variables instead of ~40; soundness / completeness of component unification only for sets without packed encodings", "3/C14"),
 "C15": ("model_checking", "E3-history", "explicit enumeration of evidence sets generated from hidden ground truths, evaluated on the real unifier against a reference word lattice",
         "For 13 word truths (widths 0, 1, 8, 32, 64, 160, 192, 255, 256) and 3 constructors (also with `Any` on the constructed value) every subset of weakenings (<= 3 on one variable, <= 2 on an equal one; constructors stated twice with split component evidence) must resolve to the join computed on explicit chains and never to a conflict (also for containers nested two deep and for two towers of up to 100 nested containers equated only at the top); each set with exactly one plainly contradictory judgement must resolve to a conflict; all under the canonical order and every single deviation at the unification order points.",
         "only the uncontroversial chains are generated; the join is computed without the tool's merge table", "3/C15"),
 "C16": ("exploration", "E1-flat", "complete enumeration of the property's finite evidence domain (all ordered pairs and triples) on the real merge",
         "The property's own domain (41 pieces of evidence) is finite: all 1 681 ordered pairs and all 68 921 ordered triples are pushed through the real unification::merge and compared after normalisation. This decides the property on its whole stated domain. The non-associative triples of the pinned tree (dynamic bytes / dynamic arrays absorbing mutually conflicting words) are listed one by one as known findings; any other triple is a violation.",
         "normalisation (conflicts collapsed, variables up to the emitted equalities) is the statement's own equivalence; packed encodings are outside the stated domain", "3/C16"),
 "C18": ("exploration", "E2-programs", "bounded exhaustive program enumeration x value-size limits with a recursive node-count oracle",
         "All stack-safe sequences up to length 5 (6) over 13 value-growing tokens x size limits {1,2,3,5,8(,250)} x iteration limits, every vector of operand shapes {leaf, constant, composite}^arity for 55 value-building opcodes and 219 idiom programs; in accumulating loops and two-path programs no two opaque stand-ins of a final state may be the same value; a hash over memory words of a value of known size is opaque exactly when its node count exceeds the limit (17 limits x 3 memory-operation limits); every instruction result in every stored state must have <= limit nodes and every node of every value (after execution, in the exported view, after lifting, after folding) must report its true node count.",
         "export wrappers are not instruction results; limits above 8 only in thorough", "3/C18"),
 "C19": ("model_checking", "E3-history", "explicit-state model checking (stateright BFS, iterative deepening) of all operation histories of the real structures against reference models",
         "All histories up to depth 6 (7 thorough) of the real DisjointSet over a 4-element universe with a non-idempotent data monoid, and up to depth 6 (8) of the real VectorMap (optionally starting with a bulk construction from any pair list incl. repeated keys, and writing through get_mut / iter_mut), are explored with state matching; every transition runs the real method and a naive reference model in lock-step and every state is compared through all observers, twice. Exhaustive for the property's stated bound (length 6, 4 elements).",
         "state key includes the real object's internal shape (Debug) so merged states have equal futures; reference models are a partition with multisets and a BTreeMap", "3/C19"),
 "C20": ("exploration", "E1-flat", "bounded exhaustive enumeration of layout entries through the real serde round trip",
         "Every AbiType tree to depth 3 over every variant (quick: depth-3 with one leaf component) plus unary chains to depth 6, and every (boundary index, offset 0..255) pair for 8 representative types, is serialised and parsed back by the real code through every serde_json entry point (from_str, from_slice, from_reader, from_value, pretty printing); equality, byte-identical re-serialisation and an independent reading of the 64-digit index are checked.",
         "serde_json trusted; indices outside the boundary set not reached", "3/C20"),
 "C10": ("exploration", "E1-flat", "bounded exhaustive enumeration of byte strings against a reference disassembler",
         "All byte strings of length 1-2 (3 thorough), all strings <= 5 (6) over 16 opcode-class representatives, every opcode x every truncation of its immediate, every PUSHn over JUMPDEST/PUSH immediates and every (PUSH-cutting) prefix of every shipped contract are disassembled by the real code and compared offset by offset with a 20-line reference disassembler; every unassigned byte and truncated PUSHn is also executed and must behave exactly like 0xfe in both error modes.",
         "trusts the reference disassembler and the Shanghai opcode table; long inputs only through the shipped corpus", "3/C10"),
}

def main():
    props = [json.loads(l) for l in open('/verif/properties.jsonl')]
    ids = [p['id'] for p in props]
    hooks_commits = subprocess.run(['git','-C','/repo','log','--format=%H %s'],capture_output=True,text=True).stdout.splitlines()
    hook_shas = [l.split()[0] for l in hooks_commits if 'verif hook' in l]
    checks = []
    for i in ids:
        if i not in CHECKS: continue
        level, engine, technique, text, note, ref = CHECKS[i]
        checks.append({
            "property_id": i,
            "quick_cmd": f"./check {i} --tier quick",
            "thorough_cmd": f"./check {i} --tier thorough",
            "evidence_file": f"/verif/evidence/{i}.json",
            "replay_cmd_template": f"./check {i} --replay {{path}}",
            "engine": engine,
            "level_claimed": {"category": level, "text": text, "design_ref": f"DESIGN.md section {ref}"},
            "level_note": note,
            "technique": technique,
        })
    na = [{"property_id": i, "reason": "check not built yet in this round; design in DESIGN.md section 3"} for i in ids if i not in CHECKS]
    m = {
        "version": 1,
        "setup_cmd": "cd /verif/mc && CARGO_NET_OFFLINE=true cargo build --release --offline && /verif/target/release/mc selfcheck-u256 | python3 /verif/tools/check_u256.py",
        "hooks": {
            "guard": "--cfg smlxl_storage_layout_extractor_verif",
            "enable": "RUSTFLAGS from /verif/mc/.cargo/config.toml: --cfg smlxl_storage_layout_extractor_verif (the harness crate depends on /repo by path, so every ./check rebuilds /repo's working tree with the hooks on)",
            "baseline_off_cmd": "cd /repo && cargo test --workspace --no-fail-fast --offline",
            "source_commits": hook_shas,
            "add_only": True,
        },
        "engines": [
            {"name": "E1-flat", "path": "/verif/mc/src", "serves_properties": [i for i in ids if i in CHECKS and CHECKS[i][1]=="E1-flat"], "kind_free_text": "complete enumeration of finite input spaces executed on the real code against reference models"},
            {"name": "E2-programs", "path": "/verif/mc/src", "serves_properties": [i for i in ids if i in CHECKS and CHECKS[i][1]=="E2-programs"], "kind_free_text": "all token sequences up to a length over a per-property alphabet x configuration grid, real pipeline against reference EVM / oracles"},
            {"name": "E3-history", "path": "/verif/mc/src", "serves_properties": [i for i in ids if i in CHECKS and CHECKS[i][1]=="E3-history"], "kind_free_text": "explicit-state search over operation histories with state matching (stateright / hand-rolled BFS), real object in lock-step with a reference model"},
            {"name": "E4-schedule", "path": "/verif/mc/src", "serves_properties": [i for i in ids if i in CHECKS and CHECKS[i][1]=="E4-schedule"], "kind_free_text": "deviation-bounded exploration of hash-iteration-order choices through the order-point hooks"},
            {"name": "E5-interruption", "path": "/verif/mc/src", "serves_properties": [i for i in ids if i in CHECKS and CHECKS[i][1]=="E5-interruption"], "kind_free_text": "every poll index of a run as the point where the watchdog starts saying stop"},
        ],
        "checks": checks,
        "not_applicable": na,
        "notes": "Single harness binary /verif/target/release/mc built from /verif/mc; ./check rebuilds it (and /repo, by path dependency, with the hooks on) before every run. Exit 0 held / 1 VIOLATION / 2 MACHINERY-ERROR. Known findings: /verif/known_findings.json.",
    }
    json.dump(m, open('/verif/MANIFEST.json','w'), indent=1)
    print("checks:", [c['property_id'] for c in checks], "not_applicable:", len(na))

main()
