#!/usr/bin/env python3
"""Prints the markdown table of independently written breaking changes (seeded/*/meta.json) for DESIGN.md section 12."""
import json, glob, os, re
rows = []
for d in sorted(glob.glob('/verif/seeded/*/')):
    m = json.load(open(d + 'meta.json'))
    name = os.path.basename(d.rstrip('/'))
    what = re.sub(r'\s+', ' ', m.get('breaks') or '')
    what = what[:230] + ('...' if len(what) > 230 else '')
    needs = re.sub(r'\s+', ' ', m.get('needs_to_manifest') or '')
    needs = needs[:170] + ('...' if len(needs) > 170 else '')
    fr = m.get('first_run', '')
    own = m.get('property') in m.get('detected_by', [])
    if 'missed by all' in fr or fr.startswith('missed as first delivered'):
        first = 'missed by every check; own check strengthened'
    elif 'itself missed it' in fr:
        first = 'caught by another check only; own check strengthened'
    elif not own:
        first = 'caught by another check (outside the own check\'s domain, see meta.json)'
    else:
        first = 'detected'
    rows.append((name, m.get('property'), what.replace('|', '/'), needs.replace('|', '/'), first, ' '.join(m.get('detected_by', []))))
print('| change | breaks | what it does | needs | as first delivered | caught by (now) |')
print('|---|---|---|---|---|---|')
for r in rows:
    print('| seeded/%s | %s | %s | %s | %s | %s |' % r)
