#!/usr/bin/env python3
"""Cross-checks the harness's reference 256-bit arithmetic (mc selfcheck-u256) against Python big integers."""
import sys
M = 1 << 256
def s(x): return x - M if x >> 255 else x
def u(x): return x % M
def sdiv(a, b):
    if b == 0: return 0
    a, b = s(a), s(b)
    q = abs(a) // abs(b)
    return u(-q if (a < 0) != (b < 0) else q)
def smod(a, b):
    if b == 0: return 0
    a, b = s(a), s(b)
    r = abs(a) % abs(b)
    return u(-r if a < 0 else r)
def signext(b, x):
    if b >= 31: return x
    bit = 8 * b + 7
    m = (1 << (bit + 1)) - 1
    return u((x & m) | (M - (1 << (bit + 1)))) if (x >> bit) & 1 else x & m
def sar(sh, x):
    x = s(x)
    if sh >= 256: return u(-1 if x < 0 else 0)
    return u(x >> sh)
def byte(i, x): return (x >> (8 * (31 - i))) & 0xff if i < 32 else 0
OPS = {
 'ADD': lambda a,b: u(a+b), 'MUL': lambda a,b: u(a*b), 'SUB': lambda a,b: u(a-b),
 'DIV': lambda a,b: a//b if b else 0, 'SDIV': sdiv, 'MOD': lambda a,b: a%b if b else 0, 'SMOD': smod,
 'EXP': lambda a,b: pow(a,b,M), 'SIGNEXTEND': signext,
 'LT': lambda a,b: int(a<b), 'GT': lambda a,b: int(a>b), 'SLT': lambda a,b: int(s(a)<s(b)), 'SGT': lambda a,b: int(s(a)>s(b)),
 'EQ': lambda a,b: int(a==b), 'AND': lambda a,b: a&b, 'OR': lambda a,b: a|b, 'XOR': lambda a,b: a^b,
 'BYTE': byte, 'SHL': lambda sh,x: u(x<<sh) if sh<256 else 0, 'SHR': lambda sh,x: x>>sh if sh<256 else 0, 'SAR': sar,
 'NOT': lambda a,b: u(~a), 'ISZERO': lambda a,b: int(a==0),
}
n = bad = 0
for line in sys.stdin:
    p = line.split()
    if not p: continue
    op = p[0]; v = [int(x, 16) for x in p[1:]]
    if op in ('ADDMOD', 'MULMOD'):
        a, b, m, r = v
        exp = 0 if m == 0 else ((a + b) % m if op == 'ADDMOD' else (a * b) % m)
    else:
        a, b, r = v
        exp = OPS[op](a, b)
    n += 1
    if exp != r:
        bad += 1
        if bad <= 10: print("MISMATCH", line.strip(), "expected", hex(exp))
print(f"ref_u256 cross-check: {n} results compared, {bad} mismatches")
sys.exit(1 if bad or n == 0 else 0)
